"""Template catalogue. Names are indices; every name is a free 32-bit solver variable unless `distinct` ties it."""
from .tmpl import Template as T

def f(a, b): return ('f', a, b)
def g(a, b): return ('g', a, b)
def h(a, b, c): return ('h', a, b, c)
def var(a): return ('var', a)
def app(x, y): return ('app', x, y)
def lam(a, x): return ('lam', a, x)
def k(a, b): return ('k', a, b)
def j(a, b): return ('j', a, b)
def u(x): return ('u', x)
def t3(a, b, c): return ('t3', a, b, c)
def s3(a, b, c): return ('s3', a, b, c)
def m3(a, b, c): return ('m3', a, b, c)
def at(a, x): return ('at', a, x)
def ta(x, a): return ('ta', x, a)
def w(a, b, c, d): return ('w', a, b, c, d)
def w4(a, b, c, d): return ('w4', a, b, c, d)
def v4(a, b, c, d): return ('v4', a, b, c, d)
def lt(x, a, y): return ('lt', x, a, y)
def mvar(a): return ('mvar', a)
def madd(x, y): return ('madd', x, y)
def mmul(x, y): return ('mmul', x, y)
def msum(a, x): return ('msum', a, x)
def mlet(a, b, t): return ('mlet', a, b, t)
def avar(a): return ('avar', a)
def aadd(x, y): return ('aadd', x, y)
def amul(x, y): return ('amul', x, y)
def alam(a, x): return ('alam', a, x)
def num(v): return ('num', v)
def subst(b, x, t): return ('subst', b, x, t)
def rule_if(name, lhs, rhs, cond, arg): return ('rule_if', name, lhs, rhs, cond, arg)
def add(t): return ('add', t)
def union(s, t): return ('union', s, t)
def readd(t): return ('readd', t)
def probe(t): return ('probe', t)
def ematch(p): return ('ematch', p)
def rule(name, lhs, rhs): return ('rule', name, lhs, rhs)
def rewrite(*rules): return ('rewrite', list(rules))
def mmatch(*eqs): return ('mmatch', [list(e) for e in eqs])
def extract(t, cf='AstSize'): return ('extract', t, cf)
def unionj(s, t, just): return ('union', s, t, just)
def explain(s, t): return ('explain', s, t)

QUICK = [
    # --- multi-slot leaves: redundancy, symmetry, all sharing patterns between the two sides
    T('T1', 'Lf', 4, [add(f(0, 1)), add(f(2, 3)), union(f(0, 1), f(2, 3))], note='f(a,b)=f(c,d): all 15 sharing patterns'),
    T('T2', 'Lf', 4, [add(f(0, 1)), add(g(2, 3)), union(f(0, 1), g(2, 3))], note='f(a,b)=g(c,d)'),
    T('T3', 'Lf', 3, [add(f(0, 1)), add(g(0, 1)), union(f(0, 1), g(0, 1)), add(g(0, 2)), union(g(0, 1), g(0, 2)), readd(f(0, 1))],
      note='merge, then the leader loses a slot; old handle of the merged class (C13), re-insertion (C09)'),
    T('T4', 'Lf', 3, [add(f(0, 1)), add(f(1, 0)), union(f(0, 1), f(1, 0)), add(g(0, 1)), union(g(0, 1), f(0, 1)), add(g(1, 2)), readd(g(1, 0))],
      note='acquired swap symmetry is the deprecated side of a later merge; symmetry must survive'),
    T('TH3', 'Lf', 3, [add(h(0, 1, 2)), add(h(1, 2, 0)), union(h(0, 1, 2), h(1, 2, 0)), add(h(2, 0, 1)), add(h(1, 0, 2))], distinct=[[0, 1, 2]],
      note='3-cycle symmetry (not an involution); the third rotation is implied, the swap is not'),
    T('TH2', 'Lf', 3, [add(h(0, 1, 2)), add(h(1, 0, 2)), union(h(0, 1, 2), h(1, 0, 2)), add(h(0, 2, 1)), union(h(0, 1, 2), h(0, 2, 1)), add(h(2, 1, 0)), add(h(1, 2, 0))],
      distinct=[[0, 1, 2]], note='two swaps generate S3: group grows twice; all permuted copies equal'),
    T('TH4', 'Lf', 4, [add(h(0, 1, 2)), add(h(0, 1, 3)), union(h(0, 1, 2), h(0, 1, 3)), add(h(1, 0, 2)), readd(h(0, 1, 3))], note='third argument becomes redundant (or more, depending on sharing)'),
    T('TORB', 'Lf', 4, [add(h(0, 1, 2)), add(h(1, 0, 2)), union(h(0, 1, 2), h(1, 0, 2)), add(h(3, 1, 2)), union(h(0, 1, 2), h(3, 1, 2)), add(h(0, 3, 2))],
      distinct=[[0, 1, 2, 3]], note='a slot in a non-trivial symmetry orbit becomes redundant: the whole orbit must go'),
    T('TW3', 'Lb', 4, [add(u(v4(0, 1, 2, 3))), add(w4(0, 1, 2, 3)), add(w4(1, 0, 2, 3)), union(w4(0, 1, 2, 3), w4(1, 0, 2, 3)), add(w4(0, 1, 3, 2)), union(w4(0, 1, 2, 3), w4(0, 1, 3, 2)),
                       union(w4(0, 1, 2, 3), v4(0, 1, 2, 3)), add(v4(1, 0, 3, 2)), add(v4(0, 1, 3, 2)), add(v4(0, 2, 1, 3))], distinct=[[0, 1, 2, 3]], ordered=[[0, 1, 2, 3]],
      note='four slots, two independent swaps (a stabiliser chain of depth 2), then the class is merged into a class that has a parent: every generator must be transported [names assumed increasing]'),
    # --- children, binders, upward merging
    T('B1', 'Lb', 2, [add(lam(0, var(0))), add(lam(1, var(1))), add(app(lam(0, var(0)), lam(1, var(1)))), readd(lam(1, var(1)))], note='alpha-equivalent lambdas are one class with no slots'),
    T('B2', 'Lb', 3, [add(app(var(0), var(1))), add(var(2)), union(app(var(0), var(1)), var(2))], note='app(var a, var b) = var c: children, redundancy through a union, self reference when c in {a,b}'),
    T('B3', 'Lb', 3, [add(lam(0, app(var(0), var(1)))), add(lam(2, app(var(2), var(1)))), add(lam(0, app(var(0), var(2)))), union(lam(0, app(var(0), var(1))), lam(0, app(var(0), var(2))))],
      note='binder with a free name; alpha variants; free name becomes redundant under the binder'),
    T('B4', 'Lb', 2, [add(u(k(0, 1))), add(u(k(1, 0))), union(k(0, 1), k(1, 0)), add(app(k(0, 1), k(1, 0)))], note='a child class gains a swap symmetry: parents must merge by congruence'),
    T('B5', 'Lb', 2, [add(u(j(0, 1))), add(u(j(1, 0))), add(k(0, 1)), add(k(1, 0)), union(k(0, 1), k(1, 0)), union(j(0, 1), k(0, 1))],
      note='symmetric class merged into a larger symmetry-free class that has parents: parents must be re-canonicalised'),
    T('B6', 'Lb', 3, [add(u(k(0, 1))), add(k(0, 2)), union(k(0, 1), k(0, 2)), add(u(k(0, 2))), add(u(k(2, 1)))], note='child loses a slot: parent invocation shrinks, congruent parents merge'),
    T('B7', 'Lb', 2, [add(app(var(0), var(1))), add(var(0)), union(app(var(0), var(1)), var(0)), add(app(app(var(0), var(1)), var(1)))],
      note='equation whose right side mentions its own left side: x = app(x, b)'),
    T('B8', 'Lb', 3, [add(t3(0, 1, 2)), add(t3(0, 2, 1)), union(t3(0, 1, 2), t3(0, 2, 1)), add(app(t3(0, 1, 2), var(1))), add(app(t3(0, 2, 1), var(2))), add(app(t3(0, 2, 1), var(1)))],
      distinct=[[0, 1, 2]], note='child class with a swap symmetry, parent reuses one of the swapped slots elsewhere: the parent must NOT inherit the symmetry'),
    T('B9', 'Lb', 3, [add(app(t3(0, 1, 2), var(1))), add(app(s3(0, 2, 1), var(1))), add(m3(0, 1, 2)), union(m3(0, 1, 2), app(t3(0, 1, 2), var(1))), add(t3(0, 2, 1)), union(t3(0, 1, 2), t3(0, 2, 1)),
                      add(s3(0, 1, 2)), union(t3(0, 1, 2), s3(0, 1, 2)), add(app(t3(0, 1, 2), var(2)))],
      distinct=[[0, 1, 2]], note='two parents congruent only modulo a child symmetry that is learned later (4-step history)'),
    T('B10', 'Lb', 2, [add(k(0, 1)), add(k(1, 0)), union(k(0, 1), k(1, 0)), add(lam(0, k(0, 1))), readd(lam(0, k(1, 0))), add(lam(1, k(0, 1)))],
      note='binder directly over a class with a swap symmetry, the bound slot in a symmetric position: both orientations are one term'),
    T('B11', 'Lb', 5, [add(app(k(0, 1), var(2))), add(app(k(0, 1), var(3))), union(app(k(0, 1), var(2)), app(k(0, 1), var(3))), add(k(0, 4)), union(k(0, 1), k(0, 4)), add(app(k(0, 4), var(2)))],
      distinct=[[0, 1, 2, 3, 4]], note='a parent slot becomes redundant by an explicit union while the child keeps it; afterwards a different child loses a slot'),
    T('T5', 'Lf', 4, [add(f(0, 1)), add(f(2, 3)), union(f(0, 1), f(2, 3)), readd(f(0, 1)), add(f(1, 2))],
      note='the invocation returned by add/lookup after the class lost own slots: no redundant slot may come back (returned slots, not their canonical form)'),
    T('B14', 'Lb', 3, [add(u(k(0, 1))), union(k(0, 1), u(k(0, 1))), add(k(0, 2)), union(k(0, 1), k(0, 2)), readd(u(k(0, 1))), add(u(u(k(0, 2))))],
      note='class that contains a node mentioning the class itself (x = u(x)) then loses a slot: the self-usage must be re-canonicalised'),
    T('B15', 'Lb', 3, [add(app(var(0), j(1, 1))), add(app(j(1, 1), var(0))), union(app(var(0), j(1, 1)), app(j(1, 1), var(0))), add(var(2)), add(j(2, 2)), union(var(2), j(2, 2)),
                       add(app(var(0), var(1))), add(app(var(1), var(0)))],
      note='two nodes of one class become the same shape with exchanged slots after their children are merged: the class gains a symmetry by congruence'),
    T('B16', 'Lb', 4, [add(t3(0, 1, 2)), add(t3(1, 2, 0)), union(t3(0, 1, 2), t3(1, 2, 0)), add(lam(0, t3(0, 1, 2))), add(lam(0, t3(0, 2, 1))), add(lam(3, t3(1, 2, 3)))],
      distinct=[[0, 1, 2]], note='binder over a class whose symmetry is a 3-cycle: the rotated body is the same term, the swapped one is not'),
    T('B17', 'Lb', 3, [add(u(app(u(var(0)), var(1)))), add(app(u(var(0)), var(2))), union(app(u(var(0)), var(1)), app(u(var(0)), var(2))), add(u(var(2))), union(u(var(0)), u(var(2))),
                       readd(app(u(var(0)), var(1)))],
      note='a class shrinks twice: first by a union of two of its own instances, then because a child loses its slot; the parent must follow both times'),
    T('B18', 'Lb', 3, [add(t3(0, 1, 2)), add(t3(1, 0, 2)), union(t3(0, 1, 2), t3(1, 0, 2)), add(t3(0, 2, 1)), union(t3(0, 1, 2), t3(0, 2, 1)), add(u(t3(0, 1, 2))), add(u(t3(1, 2, 0))), add(u(t3(2, 1, 0)))],
      distinct=[[0, 1, 2]], note='a parent is inserted over a class that already has the full symmetric group: it must pick up both generators at once'),
    T('B19', 'Lb', 2, [add(app(u(k(0, 1)), var(1))), add(k(1, 0)), union(k(0, 1), k(1, 0)), readd(app(u(k(0, 1)), var(1))), add(app(u(k(1, 0)), var(1))), add(app(u(k(1, 0)), var(0)))], distinct=[[0, 1]],
      note='a grandparent inserted before its grandchild class becomes symmetric: the parent class inherits the symmetry and ITS users must be re-canonicalised too (re-insertion must find the node)'),
    T('B20', 'Lb', 2, [add(u(k(0, 1))), add(u(j(1, 0))), union(u(k(0, 1)), u(j(1, 0))), add(j(0, 1)), union(k(0, 1), j(0, 1)), add(u(k(1, 0))), readd(u(j(0, 1))), add(app(u(k(0, 1)), u(k(1, 0))))], distinct=[[0, 1]],
      note='u(k(x,y)) = u(j(y,x)), then k(x,y) = j(x,y): the two nodes of the parent class collide with exchanged slots - the class gains a symmetry by congruence within itself'),
    T('TW5', 'Lf', 5, [add(w(0, 1, 2, 3)), add(w(1, 0, 3, 2)), union(w(0, 1, 2, 3), w(1, 0, 3, 2)), add(g(0, 1)), union(w(0, 1, 2, 3), g(0, 1)), add(g(1, 0)), add(g(0, 4)), add(w(0, 1, 4, 4))], distinct=[[0, 1, 2, 3, 4]], ordered=[[0, 1, 2, 3]],
      note='one symmetry with two disjoint cycles (a b)(c d), then only the second cycle becomes redundant: the first cycle stays a symmetry and its slots stay [names assumed increasing]'),
    T('B22', 'Lb', 4, [add(u(app(k(0, 1), k(2, 3)))), add(k(1, 0)), union(k(0, 1), k(1, 0)), add(u(app(k(1, 0), k(2, 3)))), add(u(app(k(0, 1), k(3, 2)))), add(u(app(k(2, 3), k(0, 1))))], distinct=[[0, 1, 2, 3]], ordered=[[0, 1, 2, 3]],
      note='a symmetry learned below a node with TWO symmetric arguments: the parent gains two independent symmetries in one visit and ITS parent must be re-canonicalised for both [names assumed increasing]'),
    T('B23', 'Lb', 3, [add(app(var(0), var(1))), add(lt(var(1), 2, app(var(2), var(1)))), add(lt(var(0), 2, app(var(2), var(0)))), add(lt(var(1), 0, app(var(0), var(1)))), add(lt(var(0), 2, app(var(2), var(1))))], distinct=[[0, 1, 2]],
      note='a binder that follows a child with a free slot: the bound slot is numbered after the free one in the shape; a free name equal to any internal numbering must not be captured'),
    T('B21', 'Lb', 4, [add(t3(0, 1, 2)), add(u(t3(1, 2, 3))), union(t3(0, 1, 2), u(t3(1, 2, 3))), readd(t3(0, 1, 2)), add(t3(3, 3, 3))], distinct=[[0, 1, 2, 3]],
      note='q(x,y,z) = u(q(y,z,w)): a self-referential equation with shifted slots - every slot becomes redundant, one after the other, through the class own node (cascading shrink)'),
]


def reorder(t, mode):
    """a reordering of the same set of insertions and equations: 'flip' = every union with its sides exchanged;
    'rev' = all insertions first in reverse order, then the unions in reverse order with sides exchanged"""
    adds = [op for op in t.ops if op[0] == 'add']; unions = [op for op in t.ops if op[0] == 'union']
    if mode == 'uflip':      # the unions in the opposite order (insertions stay before their first use)
        ops = adds + list(reversed(unions))
    elif mode == 'ufirst':   # only what the unions need is inserted before them; everything else afterwards
        need = []
        for op in unions:
            for x in (op[1], op[2]):
                if x not in need: need.append(x)
        ops = [('add', x) for x in need] + unions + [op for op in adds if op[1] not in need]
    elif mode == 'flip': ops = [('union', op[2], op[1]) if op[0] == 'union' else op for op in t.ops if op[0] != 'readd']
    else: ops = list(reversed(adds)) + [('union', op[2], op[1]) for op in reversed(unions)]
    r = T(t.name + '~' + mode, t.lang, t.nnames, ops, t.analysis, t.distinct, 'reordering (%s) of %s' % (mode, t.name), group=t.name)
    r.light = t.light
    return r

def _with_groups(base, which):
    out = []
    for t in base:
        out.append(t)
        for mode in which.get(t.name, ()):
            t.group = t.name; out.append(reorder(t, mode))
    return out

# --- matching and rewriting on template final states (pattern slots are extra names that may equal ANY slot issued before the pattern is written)
RW = [
    T('M1', 'Lf', 6, [add(f(0, 1)), add(f(2, 3)), union(f(0, 1), f(2, 3)), ematch(f(4, 5))], late={4: 3, 5: 3},
      note='single-pattern matcher (f $p $q) on every final state of T1, pattern slot names free'),
    T('M3', 'Lf', 5, [add(h(0, 1, 2)), ematch(h(3, 4, 3)), ematch(h(3, 3, 4))], distinct=[[0, 1, 2]], late={3: 1, 4: 1},
      note='non-linear pattern (h $x $y $x) against three distinct slots: must not match under any naming'),
    T('M4', 'Lb', 5, [add(app(var(0), app(var(1), var(2)))), ematch(app(var(3), app(var(4), var(3)))), ematch(app(var(3), app(var(3), var(4))))], distinct=[[0, 1, 2]], late={3: 1, 4: 1},
      note='non-linear pattern spread over several e-nodes against three distinct slots: must not match under any naming'),
    T('MM1', 'Lb', 3, [add(lam(0, var(0))), add(lam(0, var(1))), mmatch(('?o', lam(2, '?b')), ('?b', var(2)))], late={2: 2},
      note='multi-pattern ?o == (lam $x ?b), ?b == (var $x): the bound slot is reused by the second equation'),
    T('MM2', 'Lb', 3, [add(app(var(0), var(1))), add(app(var(0), var(0))), mmatch(('?r', app('?a', '?b')), ('?a', var(2)), ('?b', var(2)))], late={2: 2},
      note='multi-pattern with a repeated slot across equations: ?r == (app ?a ?b), ?a == (var $x), ?b == (var $x)'),
    T('M2', 'Lb', 4, [add(app(var(0), var(1))), add(lam(0, app(var(0), var(1)))), ematch(app('?a', '?b')), ematch(app('?a', '?a')), ematch(lam(2, '?b')), ematch(app(var(3), '?b'))], late={2: 4, 3: 5},
      note='patterns with variables, a repeated variable, a binder, a nested leaf'),
    T('M6', 'Lb', 2, [add(app(k(0, 1), k(1, 0))), ematch(app('?a', '?a')), add(app(k(0, 1), k(0, 1))), ematch(app('?a', '?a'))], distinct=[[0, 1]],
      note='repeated variable against two invocations of one class that differ in the ORDER of their arguments (the class has no symmetry): no match before the second insertion, one after'),
    T('M5', 'Lb', 6, [add(ta(k(0, 1), 2)), ematch(ta('?a', 3)), ematch(ta(k(3, 4), 5))], late={3: 1, 4: 1, 5: 1}, distinct=[[0, 1, 2]],
      note='node type whose child comes before its own slot: the pattern slot must be paired with the node slot, not with a slot of the child'),
    T('MM3', 'Lb', 3, [add(app(var(0), var(1))), mmatch(('?q', app('?b', '?c')), ('?r', app('?a', '?b')), ('?a', var(2)), ('?b', var(2)))], late={2: 1},
      note='multi-pattern whose equations force two siblings to be the same variable term although the only node has two different ones'),
    T('MM4', 'Lb', 3, [add(u(k(0, 1))), add(at(0, k(0, 1))), add(at(1, k(0, 1))), mmatch(('?o', u('?a')), ('?p', at(2, '?a')))], late={2: 3}, distinct=[[0, 1]],
      note='multi-pattern whose join variable is bound to a class with two slots and no symmetry: the two bindings must be identified argument by argument, not as slot sets'),
    T('MM5', 'Lb', 2, [add(app(u(var(0)), var(1))), add(app(u(var(0)), k(0, 1))), mmatch(('?p', u('?z')), ('?r', app('?p', '?q')))],
      note='multi-pattern in which an already bound variable is met again as the FIRST child of a later equation and a new variable follows it in the same node: the new binding must be canonical with respect to the slots identified for the first'),
    T('R1', 'Lf', 6, [add(f(0, 1)), add(f(2, 3)), union(f(0, 1), f(2, 3)), rewrite(rule('f-to-g', f(4, 5), g(5, 4))), probe(g(1, 0)), probe(g(3, 2)), rewrite(rule('f-to-g', f(4, 5), g(5, 4)))], late={4: 3, 5: 3},
      note='(f $x $y) => (g $y $x) on every final state of T1; second application must report no change'),
    T('R2', 'Lb', 3, [add(app(var(0), var(1))), add(app(var(1), var(1))), rewrite(rule('comm', app('?a', '?b'), app('?b', '?a')), rule('idem', app('?a', '?a'), '?a')), probe(app(var(1), var(0))), rewrite(rule('comm', app('?a', '?b'), app('?b', '?a')), rule('idem', app('?a', '?a'), '?a'))],
      note='variable patterns: commutativity and (app ?a ?a) => ?a, both searched before either is applied'),
    T('R3', 'Lb', 4, [add(u(k(0, 1))), add(k(1, 0)), union(k(0, 1), k(1, 0)), add(u(k(1, 0))), rewrite(rule('k-to-j', u(k(2, 3)), u(j(2, 3)))), probe(u(j(0, 1))), probe(u(j(1, 0)))], late={2: 4, 3: 4},
      note='nested pattern over a child class with a swap symmetry: both orientations are instances'),
    T('R4', 'Lb', 4, [add(app(k(0, 1), j(0, 1))), add(k(1, 0)), union(k(0, 1), k(1, 0)),
                      rewrite(rule('direct', app(k(2, 3), j(2, 3)), u(j(2, 3))), rule('flipped', app(k(2, 3), j(3, 2)), u(u(j(2, 3))))),
                      probe(u(j(0, 1))), probe(u(u(j(1, 0))))], late={2: 3, 3: 3},
      note='symmetric child class next to a non-symmetric sibling: the pattern in the stored orientation and in the other one are both instances'),
    T('R5', 'Lb', 4, [add(app(j(0, 1), k(0, 1))), add(k(1, 0)), union(k(0, 1), k(1, 0)),
                      rewrite(rule('direct', app(j(2, 3), k(2, 3)), u(j(2, 3))), rule('flipped', app(j(2, 3), k(3, 2)), u(u(j(2, 3))))),
                      probe(u(j(0, 1))), probe(u(u(j(0, 1))))], late={2: 3, 3: 3},
      note='the symmetric child comes after a sibling that already mentions its slots; both orientations are instances'),
    T('R6', 'Lf', 6, [add(h(0, 1, 2)), rewrite(rule('rot', h(3, 4, 5), h(4, 5, 3))), rewrite(rule('rot', h(3, 4, 5), h(4, 5, 3))), rewrite(rule('swap', h(3, 4, 5), h(4, 3, 5))), probe(h(1, 0, 2)), rewrite(rule('swap', h(3, 4, 5), h(4, 3, 5)))],
      distinct=[[0, 1, 2], [3, 4, 5]], late={3: 1, 4: 1, 5: 1}, note='a class with the rotation group C3 learns a transposition in a separate call (C3 -> S3): the call must report a change'),
    T('R7', 'Lf', 5, [add(f(0, 1)), rewrite(rule('forget', f(2, 3), f(4, 3))), probe(f(1, 1)), rewrite(rule('forget', f(2, 3), f(4, 3)))], late={2: 1, 3: 1, 4: 1},
      note='both sides of the rule instance lie in one class with different slot arguments: a slot becomes redundant, nothing else changes'),
    T('R9', 'Lb', 4, [add(u(k(0, 1))), rewrite(rule('shrink', k(2, 3), j(2, 2)), rule('wrap', u('?x'), app('?x', '?x'))), probe(app(k(0, 1), k(0, 1))), probe(app(j(0, 0), j(0, 0)))], late={2: 1, 3: 1},
      note='two rules in one call: the first one merges the class bound by a match of the second one into another class; the second match must still be applied'),
    T('R10', 'Lb', 2, [add(app(k(0, 1), var(0))), add(app(k(0, 1), var(1))), union(app(k(0, 1), var(0)), app(k(0, 1), var(1))), rewrite(rule('comm', app('?p', '?q'), app('?q', '?p'))),
                       probe(app(var(0), k(0, 1))), probe(app(var(1), k(0, 1)))], distinct=[[0, 1]],
      note='two e-nodes of one class bind the same classes under different slot arguments: both are instances and both must fire'),
    T('R11', 'Lb', 2, [add(app(app(var(0), lam(1, var(1))), var(0))), rewrite(rule('absorb', app('?x', lam(1, var(1))), lam(1, var(1))), rule('pick', app(app('?a', '?b'), '?a'), u('?a'))), probe(u(var(0)))],
      note='two rules in one call: the first makes a slot redundant inside an instance of the second; all rules are searched before any is applied, so the second instance must still fire'),
]

for _t in RW:
    if _t.name in ('R6', 'R1'): _t.light = True
# --- extraction on template final states
EX = [
    T('X1', 'Lf', 4, [add(f(0, 1)), add(f(2, 3)), union(f(0, 1), f(2, 3)), extract(f(0, 1)), extract(f(2, 3), 'WeightedF')], note='extraction from every final state of T1 (classes with redundant slots, symmetric classes)'),
    T('X2', 'Lb', 3, [add(app(var(0), var(1))), add(var(2)), union(app(var(0), var(1)), var(2)), extract(app(var(0), var(1))), extract(var(2), 'Weighted')], note='cheapest member changes through a union; self-referential classes when c in {a,b}'),
    T('X3', 'Lb', 2, [add(k(0, 1)), add(j(0, 1)), union(k(0, 1), j(0, 1)), add(u(k(0, 1))), extract(u(k(0, 1)), 'Weighted'), extract(u(k(0, 1)))], note='class with two leaves of different weight below a parent (k first)'),
    T('X4', 'Lb', 2, [add(j(0, 1)), add(k(0, 1)), union(j(0, 1), k(0, 1)), add(u(k(0, 1))), extract(u(k(0, 1)), 'Weighted')], note='the same with the cheaper leaf inserted first'),
    T('X5', 'Lb', 2, [add(lam(0, app(var(0), var(1)))), add(var(1)), union(lam(0, app(var(0), var(1))), var(1)), extract(lam(0, app(var(0), var(1)))), extract(app(var(0), var(1)))], note='cyclic class under a binder: x = lam a. app(a, x)'),
    T('X8', 'Lb', 2, [add(k(0, 1)), add(u(var(0))), union(k(0, 1), u(var(0))), extract(k(0, 1), 'Weighted'), extract(u(var(0)), 'Weighted'), extract(k(0, 1))],
      note='the queried class itself contains a leaf that outweighs a composite member (k = 5 > u(var) = 2): the leaf is not the answer under the weighted cost, it is under AstSize'),
    T('X9', 'Lb', 2, [add(j(0, 1)), add(app(j(0, 1), j(1, 0))), extract(app(j(0, 1), j(1, 0))), extract(app(j(0, 1), j(1, 0)), 'Weighted')], distinct=[[0, 1]],
      note='the cheapest node mentions one non-symmetric class twice with the same slots in exchanged order: the two children are different terms'),
    T('X10', 'Lb', 3, [add(lt(var(0), 2, app(var(2), var(1)))), extract(lt(var(0), 2, app(var(2), var(1)))), extract(lt(var(0), 2, app(var(2), var(1))), 'Weighted'), add(lt(var(1), 2, app(var(2), var(0)))), extract(lt(var(1), 2, app(var(2), var(0))))],
      note='a binder that follows a child with a free slot (its canonical name is not $0), queried under every naming of the two free slots: the extracted term must not capture a free slot'),
    T('X11', 'Lb', 2, [add(app(u(u(var(0))), u(u(var(1))))), add(app(var(0), u(u(u(var(1)))))), union(app(u(u(var(0))), u(u(var(1)))), app(var(0), u(u(u(var(1)))))), extract(app(var(0), u(u(u(var(1)))))), extract(app(u(u(var(0))), u(u(var(1)))))],
      note='a class with two nodes of the same operator: the dearer one (children 3 + 3) is complete before the cheaper one (children 1 + 4)'),
    T('X7', 'Lb', 2, [add(at(0, var(0))), add(at(1, var(1))), union(at(0, var(0)), at(1, var(1))), extract(at(0, var(0))), extract(at(1, var(1)), 'Weighted')],
      note='redundant slot that occurs in a slot field of the cheapest node and in its child: the extracted term must name it consistently'),
]
for _t in EX: _t.light = True
# --- analyses without a modify hook (min size, depth): data after every operation
def _an(name, ops, note, nn=3):
    return [T(name + '-' + a, 'Lb', nn, ops, analysis=a, note=note + ' [analysis %s]' % a) for a in ('MinSize', 'Depth')]
AN = (_an('A1', [add(app(var(0), var(1))), add(var(2)), union(app(var(0), var(1)), var(2))], 'datum of a merged class is the join of both sides')
      + _an('A2', [add(u(u(app(var(0), var(1))))), add(var(2)), union(app(var(0), var(1)), var(2))], 'the surviving class improves and has a parent chain: parents and grandparents must be re-analysed')
      + _an('A3', [add(u(u(app(var(0), var(1))))), add(u(var(2))), add(app(var(2), var(2))), add(lam(2, var(2))), union(var(2), app(var(0), var(1)))],
            'the deprecated (smaller) class improves; its parent chain does not become congruent to existing nodes'))
AN = AN + _an('A4', [add(u(u(app(var(0), var(0))))), add(var(1)), union(var(1), app(var(0), var(0)))], 'a lone leaf is merged into a class with the same slot count that has parents: the SURVIVING class improves', nn=2)
_la, _lb = lam(0, var(0)), lam(0, u(var(0)))
AN = AN + _an('A5', [add(_la), add(_lb), add(app(u(_lb), _la)), add(app(u(_lb), _lb)), add(app(u(_la), _la)), add(app(u(_la), _lb)), union(_la, _lb)],
              'a node uses both the class that is merged away and the class whose datum improves in the same rebuild: it must still be re-canonicalised (congruence)', nn=1)
_cc = app(var(0), var(1))
AN = AN + _an('A6', [add(u(app(u(_cc), u(u(_cc))))), add(var(2)), union(_cc, var(2))], 'the improving class feeds one parent at two different depths: the parent datum improves twice within one rebuild')
_d1 = app(_cc, _cc); _d2 = app(_d1, _d1); _d3 = app(_d2, _d2); _x8 = u(_cc); _p8 = app(_x8, _d3)
AN = AN + _an('A8', [add(u(_p8)), add(app(_p8, _p8)), add(app(_p8, _x8)), add(app(_x8, _p8)), add(app(_d1, _p8)), add(var(2)), union(_cc, var(2))],
              'the improving class reaches one node through two independent chains of depth 1 and 3: the node improves twice within one rebuild under any worklist order; five parents above it')
_c9 = u(u(u(k(0, 1)))); _b9 = j(0, 1); _d9 = u(u(u(u(m3(0, 1, 0))))); _q9 = app(_b9, _d9)
AN = AN + _an('A9', [add(lam(2, _c9)), add(app(_c9, _d9)), union(lam(2, _c9), app(_c9, _d9)), add(_q9), add(lam(2, _q9)), add(u(_q9)), add(app(_q9, _q9)), add(app(_q9, _d9)), add(app(_d9, _q9)), add(lam(2, lam(2, _q9))),
                     add(_c9), add(_b9), union(_c9, _b9)],
              'a class P = {f(c), h(c,d)} is merged away by congruence (h(c,d) = h(b,d), the other class has more parents) in the same rebuild in which its member f(c) improves because c = b: the moved node must still be re-analysed')
_s10 = app(k(0, 1), j(0, 1)); _n10 = u(_s10)
AN = AN + _an('A10', [add(u(_n10)), add(app(_n10, _n10)), add(lam(2, _n10)), add(u(m3(0, 1, 0))), union(_s10, m3(0, 1, 0))],
              'neg(3+4) has users; 3+4 = 7 where neg(7) already exists in a smaller class: the node improves its own class, is then congruent to the other class and its class survives - its users must still be re-analysed')
for _t in AN: _t.light = True
# --- constant folding with a modify hook (language La, numbers concrete, slot names symbolic): the hook adds (num v) to every class whose datum is Some(v) and
# unions it - the analysis changes the equivalence itself, so the oracle closure contains the folded constants (oracle.const_closure)
def _cp(name, nn, ops, note, distinct=None):
    t = T(name, 'La', nn, ops, analysis='ConstProp', note=note + ' [analysis ConstProp, modify hook]', distinct=distinct); t.light = True; return t
_x1 = aadd(avar(0), num(3))
CP = [
    _cp('CP1', 0, [add(aadd(num(2), amul(num(2), num(3)))), probe(num(8)), probe(aadd(num(2), num(6))), readd(amul(num(2), num(3)))],
        'ground term: folded at insertion, the constant is added to the class by the hook'),
    _cp('CP2', 2, [add(_x1), add(num(2)), union(avar(0), num(2)), probe(num(5)), add(aadd(avar(1), num(3)))],
        'a variable becomes a constant by a union: the parent is re-analysed, folded, and loses its slot'),
    _cp('CP3', 2, [add(amul(aadd(avar(0), num(1)), aadd(avar(1), avar(0)))), add(num(2)), union(avar(0), num(2)), probe(num(12)), probe(num(4))],
        'constants travel two levels up within one union: modify -> union -> rebuild -> modify'),
    _cp('CP4', 2, [add(alam(0, aadd(avar(0), num(1)))), add(alam(0, num(3))), add(num(2)), add(avar(1)), union(avar(1), num(2)), readd(alam(1, num(3)))],
        'folding below a binder makes the binder node congruent to an existing one'),
    _cp('CP5', 1, [add(aadd(aadd(num(1), num(2)), avar(0))), probe(aadd(num(3), avar(0))), add(aadd(num(3), avar(0)))],
        'a folded child: the parent over the constant is the same e-node'),
    _cp('CP6', 2, [add(aadd(aadd(avar(0), avar(1)), num(1))), add(num(7)), union(aadd(avar(0), avar(1)), num(7)), probe(num(8)), add(aadd(avar(1), avar(1)))],
        'a class with two parameter slots and a parent is merged with a constant: the datum arrives from the other side of the union'),
    _cp('CP7', 1, [add(amul(avar(0), num(1))), union(avar(0), amul(avar(0), num(1))), add(num(4)), union(amul(avar(0), num(1)), num(4)), probe(amul(num(4), num(1)))],
        'cyclic class x = x * 1 becomes a constant'),
    _cp('CP8', 2, [add(aadd(avar(0), avar(1))), add(amul(avar(0), avar(1))), union(aadd(avar(0), avar(1)), amul(avar(0), avar(1))), add(num(2)), union(avar(0), num(2)), probe(num(4))],
        'two non-constant classes merged first, both become the same constant later'),
]
QUICK = QUICK + RW + EX + AN + CP
QUICK = _with_groups(QUICK, {'T1': ('rev',), 'T3': ('rev',), 'T4': ('flip',), 'B2': ('flip',), 'B5': ('rev',), 'TH2': ('rev',), 'B11': ('uflip',), 'B18': ('rev',), 'A5-MinSize': ('ufirst',), 'A5-Depth': ('ufirst',), 'CP6': ('flip',), 'CP8': ('rev',)})

for _t in QUICK:
    if _t.name.startswith('B11'): _t.light = True

# --- thorough tier: more names, larger operators, deeper histories (path / wall budgets apply; a template over budget is reported as not covered)
THOROUGH = [
    T('TH6', 'Lf', 6, [add(h(0, 1, 2)), add(h(3, 4, 5)), union(h(0, 1, 2), h(3, 4, 5))], note='h(a,b,c)=h(d,e,f): all 203 sharing patterns of six names (3-cycles, orbit redundancy, mixed)'),
    T('T6', 'Lf', 6, [add(f(0, 1)), add(g(2, 3)), union(f(0, 1), g(2, 3)), add(f(4, 5)), union(g(2, 3), f(4, 5))], note='two unions chained through g: f(a,b)=g(c,d)=f(e,f)'),
    T('TW1', 'Lf', 4, [add(w(0, 1, 2, 3)), add(w(1, 0, 2, 3)), union(w(0, 1, 2, 3), w(1, 0, 2, 3)), add(w(0, 1, 3, 2)), union(w(0, 1, 2, 3), w(0, 1, 3, 2)), add(w(0, 2, 1, 3)), union(w(0, 1, 2, 3), w(0, 2, 1, 3)),
                       add(w(3, 2, 1, 0)), add(w(1, 2, 3, 0))], distinct=[[0, 1, 2, 3]], note='four slots: (0 1), then (2 3), then (1 2) - three successive growths of one group up to S4'),
    T('TW2', 'Lf', 4, [add(w(0, 1, 2, 3)), add(w(1, 2, 3, 0)), union(w(0, 1, 2, 3), w(1, 2, 3, 0)), add(w(2, 3, 0, 1)), add(w(1, 0, 2, 3))], distinct=[[0, 1, 2, 3]], note='a 4-cycle symmetry'),
    T('B12', 'Lb', 4, [add(lam(0, app(var(0), var(1)))), add(lam(2, app(var(2), var(3)))), union(lam(0, app(var(0), var(1))), lam(2, app(var(2), var(3)))), add(app(var(1), var(3)))],
      note='union of two lambdas with free names: redundancy derived under a binder'),
    T('B13', 'Lb', 3, [add(app(var(0), var(1))), add(var(2)), union(app(var(0), var(1)), var(2)), add(app(app(var(0), var(1)), var(2))), add(lam(0, app(var(0), var(1)))), readd(app(var(2), var(2)))],
      note='self-referential and collapsing classes followed by further insertions'),
    T('R8', 'Lb', 5, [add(app(var(0), app(var(1), var(2)))), rewrite(rule('assoc', app('?a', app('?b', '?c')), app(app('?a', '?b'), '?c'))), probe(app(app(var(0), var(1)), var(2))),
                      rewrite(rule('assoc', app('?a', app('?b', '?c')), app(app('?a', '?b'), '?c')), rule('comm', app('?a', '?b'), app('?b', '?a'))), probe(app(var(2), app(var(0), var(1))))],
      note='two rounds with variable-only rules on a three-leaf term'),
    T('X6', 'Lb', 3, [add(app(app(var(0), var(1)), var(2))), add(var(0)), union(app(var(0), var(1)), var(0)), extract(app(app(var(0), var(1)), var(2))), extract(app(app(var(0), var(1)), var(2)), 'Weighted')],
      note='extraction through a cyclic child class'),
]
for _t in THOROUGH: _t.light = _t.name in ('TH6', 'T6', 'TW1', 'R8')
THOROUGH = _with_groups(THOROUGH, {'T6': ('rev',), 'TW1': ('uflip',)})


# --- C03: rules that are valid in the model (GF(P) arithmetic, summation binder, let binder); X, Y are pattern-slot names
def model_rules(X, Y):
    return {
        'add-comm': rule('add-comm', madd('?a', '?b'), madd('?b', '?a')),
        'mul-comm': rule('mul-comm', mmul('?a', '?b'), mmul('?b', '?a')),
        'distr': rule('distr', mmul('?a', madd('?b', '?c')), madd(mmul('?a', '?b'), mmul('?a', '?c'))),
        'factor': rule('factor', madd(mmul('?a', '?b'), mmul('?a', '?c')), mmul('?a', madd('?b', '?c'))),
        'sum-add': rule('sum-add', msum(X, madd('?a', '?b')), madd(msum(X, '?a'), msum(X, '?b'))),
        'sum-pull': rule('sum-pull', mmul('?a', msum(X, '?b')), msum(X, mmul('?a', '?b'))),
        'sum-swap': rule('sum-swap', msum(X, msum(Y, '?b')), msum(Y, msum(X, '?b'))),
        'let-var': rule('let-var', mlet(X, mvar(X), '?t'), '?t'),
        'let-other': rule('let-other', mlet(X, mvar(Y), '?t'), mvar(Y)),
        'let-add': rule('let-add', mlet(X, madd('?a', '?b'), '?t'), madd(mlet(X, '?a', '?t'), mlet(X, '?b', '?t'))),
        'let-mul': rule('let-mul', mlet(X, mmul('?a', '?b'), '?t'), mmul(mlet(X, '?a', '?t'), mlet(X, '?b', '?t'))),
        'let-sum': rule('let-sum', mlet(X, msum(Y, '?b'), '?t'), msum(Y, mlet(X, '?b', '?t'))),
        'let-subst': rule('let-subst', mlet(X, '?b', '?t'), subst('?b', mvar(X), '?t')),
        'let-let': rule('let-let', mlet(Y, mlet(X, '?b', '?u'), '?t'), subst(subst('?b', mvar(X), '?u'), mvar(Y), '?t')),
        'let-const': rule_if('let-const', mlet(X, '?b', '?t'), '?b', 'cond_b_independent_of', X),
    }

_USES = {'add-comm': 0, 'mul-comm': 0, 'distr': 0, 'factor': 0, 'sum-add': 1, 'sum-pull': 1, 'sum-swap': 2, 'let-var': 1, 'let-other': 2, 'let-add': 1, 'let-mul': 1, 'let-sum': 2,
         'let-subst': 1, 'let-let': 2, 'let-const': 1}      # how many pattern-slot names a rule writes
def _md(name, nn, term, rules, rounds, note, subst_method=None, extra_terms=(), distinct=None, ordered=None):
    npat = max(_USES[r] for r in rules)
    X, Y = nn, nn + 1
    R = model_rules(X, Y)
    first = 1 + len(extra_terms)
    ops = [add(term)] + [add(t) for t in extra_terms] + [rewrite(*[R[r] for r in rules]) for _ in range(rounds)]
    t = T(name, 'Lm', nn + npat, ops, distinct=(distinct or []) + ([[X, Y]] if npat == 2 else []), late={n_: first for n_ in (X, Y)[:npat]}, note=note, subst_method=subst_method, model=True)
    t.light = True; t.ordered = ordered
    if ordered: t.note += ' [names %s assumed increasing]' % (ordered,)
    return t

MODEL = [
    _md('MD1', 3, mlet(2, madd(mvar(2), mvar(0)), mmul(mvar(0), mvar(1))), ['let-add', 'let-var', 'let-other', 'add-comm'], 1,
        'let pushed through a sum, resolved at the leaves (re-binding rule: $x is bound twice on the right side)', distinct=[[0, 2], [1, 2]]),
    _md('MD2', 3, mlet(2, mmul(mvar(2), madd(mvar(2), mvar(0))), madd(mvar(0), mvar(1))), ['let-subst', 'distr'], 2,
        'right side with the substitution form b[x := t], default method (syntactic expression)', distinct=[[0, 2], [1, 2]]),
    _md('MD3', 3, mlet(2, mmul(mvar(2), madd(mvar(2), mvar(0))), madd(mvar(0), mvar(1))), ['let-subst', 'distr'], 2,
        'the same with the extraction-based substitution method', subst_method='ExtractionSubst', distinct=[[0, 2], [1, 2]]),
    _md('MD4', 3, mmul(mvar(0), msum(2, madd(mvar(2), mvar(1)))), ['sum-pull', 'sum-add', 'distr', 'mul-comm'], 2,
        'a factor is moved under the summation binder; capture is avoided by slots only', distinct=[[0, 1, 2]], ordered=[[0, 1, 2]]),
    _md('MD6', 3, mlet(2, mvar(0), mvar(1)), ['let-const'], 1, 'conditional rule: fires only where the body does not depend on the bound slot',
        extra_terms=(mlet(2, madd(mvar(2), mvar(0)), mvar(1)),), distinct=[[0, 2], [1, 2]]),
]
MODEL += [
    _md('MD10', 3, msum(2, madd(mmul(madd(mvar(2), mvar(0)), mvar(2)), mmul(madd(mvar(0), mvar(2)), mvar(2)))), ['add-comm'], 1,
        'two parents that differ only in the argument order of a child that becomes symmetric, each mentioning one of the permuted slots again', distinct=[[0, 2], [1, 2]]),
    _md('MD11', 4, mlet(3, madd(mvar(3), mlet(2, mvar(0), mvar(1))), mvar(0)), ['let-const', 'let-subst'], 2,
        'the body class of a let loses a parameter slot in the first round and is substituted into in the second (default method)', distinct=[[0, 1, 2, 3]], ordered=[[0, 1, 2, 3]]),
    _md('MD12', 4, mlet(2, mlet(3, madd(mvar(3), mvar(2)), mmul(mvar(2), mvar(0))), mvar(1)), ['let-let'], 1,
        'right side with two nested substitutions b[x := u][y := t]', distinct=[[0, 2, 3], [1, 2, 3]]),
]
MODEL += [
    _md('MD13', 3, mlet(2, mlet(1, mvar(1), madd(mvar(2), mvar(2))), mvar(0)), ['let-var', 'let-subst'], 1,
        'the class bound to ?b of the substitution rule is merged with another class by an earlier rule of the same call (stale binding), extraction-based method', subst_method='ExtractionSubst', distinct=[[0, 1, 2]], ordered=[[0, 1, 2]]),
]
MODEL += [
    _md('MD14', 3, mlet(2, madd(mvar(2), msum(1, mvar(1))), mvar(0)), ['let-subst'], 1,
        'a closed binder term inside the let body; the pattern slot of the substitution rule may be any slot already issued, in particular the numeric name a closed node uses for its bound slot', distinct=[[0, 1, 2]], ordered=[[0, 1, 2]]),
]
def _md_late(name, body, rules, note, subst_method=None):
    # names: 0 = bound by the let, 1 = bound by the sum, 2 = free slot of the let's argument (written one operation later: it may equal any slot issued before), 3 = pattern slot
    R = model_rules(3, 4)
    ops = [add(body), add(mlet(0, body, mvar(2))), rewrite(*[R[r] for r in rules])]
    t = T(name, 'Lm', 4, ops, distinct=[[0, 1], [0, 2]], late={2: 1, 3: 2}, note=note, subst_method=subst_method, model=True); t.light = True
    return t
MODEL += [
    _md_late('MD15', msum(1, madd(mvar(0), mvar(1))), ['let-subst'], 'the argument of the let has a free slot that may equal a bound slot stored inside the body class: the substitution must not let the binder capture it (default method)'),
    _md_late('MD15e', msum(1, madd(mvar(0), mvar(1))), ['let-subst'], 'the same with the extraction-based method', subst_method='ExtractionSubst'),
]
MODEL_THOROUGH = [
    _md('MD13x', 3, mlet(2, mlet(1, mvar(1), madd(mvar(2), mvar(2))), mvar(0)), ['let-var', 'let-subst'], 2,
        'MD13 with the default method, every order of the names and a second round', distinct=[[0, 1, 2]]),
    _md('MD4x', 3, mmul(mvar(0), msum(2, madd(mvar(2), mvar(1)))), ['sum-pull', 'sum-add', 'distr', 'mul-comm'], 2, 'MD4 with every sharing and order of the names', distinct=[[0, 2], [1, 2]]),
    _md('MD11x', 4, mlet(3, madd(mvar(3), mlet(2, mvar(0), mvar(1))), mvar(0)), ['let-const', 'let-subst'], 2, 'MD11 with every order of the names', distinct=[[0, 1, 2, 3]]),
    _md('MD12x', 4, mlet(2, mlet(3, madd(mvar(3), mvar(2)), mmul(mvar(2), mvar(0))), mvar(1)), ['let-let'], 1,
        'nested substitutions with the extraction-based method', subst_method='ExtractionSubst', distinct=[[0, 2, 3], [1, 2, 3]]),
    _md('MD1x', 3, mlet(2, madd(mvar(2), mvar(0)), mmul(mvar(0), mvar(1))), ['let-add', 'let-var', 'let-other', 'add-comm'], 2, 'MD1 with a second round', distinct=[[0, 2], [1, 2]]),
    _md('MD5', 4, mlet(2, msum(3, mmul(mvar(3), mvar(2))), madd(mvar(0), mvar(1))), ['let-sum', 'let-mul', 'let-var', 'let-other'], 3,
        'let pushed under a summation binder whose body mentions both bound slots', distinct=[[0, 2, 3], [1, 2, 3]]),
    _md('MD7', 4, msum(2, msum(3, mmul(madd(mvar(2), mvar(0)), madd(mvar(3), mvar(1))))), ['sum-swap', 'distr', 'sum-add', 'sum-pull', 'mul-comm'], 2,
        'two nested summations, swapped and distributed', distinct=[[0, 2, 3], [1, 2, 3]]),
    _md('MD8', 4, mlet(2, mlet(3, madd(mvar(3), mvar(2)), mvar(2)), mmul(mvar(0), mvar(1))), ['let-subst', 'let-add', 'let-var', 'let-other', 'let-const'], 2,
        'nested lets, substitution form and the conditional rule in one rule set', distinct=[[0, 2, 3], [1, 2, 3]]),
    _md('MD9', 4, mlet(2, mlet(3, madd(mvar(3), mvar(2)), mvar(2)), mmul(mvar(0), mvar(1))), ['let-subst', 'let-add', 'let-var', 'let-other', 'let-const'], 2,
        'the same with the extraction-based substitution method', subst_method='ExtractionSubst', distinct=[[0, 2, 3], [1, 2, 3]]),
]


# --- C07: explanations (MIR of the `explanations` build). Every union carries a justification; `explain` calls EGraph::explain_equivalence and the returned proof
# DAG is re-checked node by node on terms (mirsmt/proofcheck.py). Names are tied distinct (one coincidence pattern), all orders of the names are explored.
def _ex(name, lang, nn, ops, note, ordered=None):
    t = T(name, lang, nn, ops, distinct=[list(range(nn))], note=note + ' [explanations build]'); t.light = True; t.ordered = ordered
    if ordered: t.note += ' [names %s assumed increasing]' % (ordered,)
    return t
EXPLAIN = [
    _ex('E1', 'Lf', 2, [add(f(0, 1)), add(g(0, 1)), unionj(f(0, 1), g(0, 1), 'j1'), explain(f(0, 1), g(0, 1)), explain(g(1, 0), f(1, 0))],
        'one asserted equation: the leaf itself; the renamed and flipped instance'),
    _ex('E2', 'Lf', 2, [add(f(0, 1)), add(g(0, 1)), add(h(0, 1, 1)), add(w(0, 1, 0, 1)), unionj(f(0, 1), g(0, 1), 'fg'), unionj(h(0, 1, 1), g(0, 1), 'hg'), unionj(f(0, 1), w(0, 1, 0, 1), 'fw'),
                        explain(f(0, 1), h(0, 1, 1)), explain(h(1, 0, 0), w(1, 0, 1, 0))],
        'transitivity through a union-find chain; later assertions about both sides of an earlier union (whichever class was moved, a leaf speaks about a term that is no longer a leader)'),
    _ex('E3', 'Lb', 2, [add(u(k(0, 1))), add(u(j(0, 1))), unionj(k(0, 1), j(0, 1), 'kj'), explain(u(k(0, 1)), u(j(0, 1))), explain(lam(0, k(0, 1)), lam(0, j(0, 1))), explain(lam(1, u(j(1, 0))), lam(1, u(k(1, 0))))],
        'congruence, also under a binder (terms the e-graph has not seen before the query)'),
    _ex('E5', 'Lf', 2, [add(f(0, 1)), add(f(1, 0)), unionj(f(0, 1), f(1, 0), 'swap'), explain(f(0, 1), f(1, 0)), add(g(0, 1)), unionj(g(0, 1), f(0, 1), 'gf'), explain(g(0, 1), g(1, 0))],
        'a transposition symmetry, then inherited by a class merged in later'),
    _ex('E6', 'Lf', 3, [add(h(0, 1, 2)), add(h(1, 2, 0)), unionj(h(0, 1, 2), h(1, 2, 0), 'rot'), explain(h(0, 1, 2), h(1, 2, 0)), explain(h(0, 1, 2), h(2, 0, 1)), explain(h(2, 0, 1), h(0, 1, 2))],
        'a symmetry of order 3: the asserted rotation, its square, its inverse (permutation and inverse differ)'),
]
EXPLAIN += [
    _ex('E8', 'Lb', 3, [add(u(t3(0, 1, 2))), add(t3(1, 2, 0)), unionj(t3(0, 1, 2), t3(1, 2, 0), 'rot'), explain(u(t3(0, 1, 2)), u(t3(2, 0, 1)))],
        'congruence over a child class with a symmetry of order 3 that the parent class inherits (determine_self_symmetries)'),
]
EXPLAIN += [
    _ex('E12', 'Lb', 3, [add(u(s3(0, 1, 2))), add(s3(2, 0, 1)), add(t3(0, 1, 2)), add(t3(1, 2, 0)), unionj(t3(0, 1, 2), t3(1, 2, 0), 'rot'), unionj(t3(0, 1, 2), s3(2, 0, 1), 'ts'), explain(s3(0, 1, 2), s3(1, 2, 0)), explain(t3(0, 1, 2), s3(0, 1, 2))],
         'the class with the order-3 symmetry is the smaller one and is merged INTO a class that has a parent, under a non-identity slot correspondence: its generators and their proofs are transported (move_to)'),
    _ex('E13', 'Lf', 3, [add(f(0, 1)), add(f(0, 2)), unionj(f(0, 1), f(0, 2), 'red'), explain(f(0, 1), f(0, 2))],
        'a redundant slot on a class that stays its own leader: the equation between two instances that differ in the redundant argument', ordered=[[0, 1, 2]]),
    _ex('E14', 'Lb', 2, [add(u(app(var(0), var(1)))), rewrite(rule('comm', app('?a', '?b'), app('?b', '?a'))), explain(app(var(0), var(1)), app(var(1), var(0))), explain(u(app(var(1), var(0))), u(app(var(0), var(1))))],
        'a rule application as a leaf (justified by the rule name), used below a congruence step'),
    _ex('E11', 'Lf', 3, [add(h(0, 1, 2)), add(h(1, 0, 2)), unionj(h(0, 1, 2), h(1, 0, 2), 's01'), add(h(0, 2, 1)), unionj(h(0, 1, 2), h(0, 2, 1), 's12'), explain(h(0, 1, 2), h(1, 2, 0)), explain(h(0, 1, 2), h(2, 0, 1)),
                         explain(h(0, 1, 2), h(2, 1, 0))],
         'a non-abelian symmetry group (S3 from two transpositions): products in both orders'),
]
EXPLAIN_THOROUGH = [
    _ex('E10', 'Lf', 3, [add(h(0, 1, 2)), add(h(1, 2, 0)), unionj(h(0, 1, 2), h(1, 2, 0), 'rot'), add(w(0, 1, 2, 2)),
                         unionj(w(0, 1, 2, 2), h(0, 1, 2), 'wh'), explain(w(0, 1, 2, 2), w(1, 2, 0, 0)), explain(w(2, 0, 1, 1), h(0, 1, 2))],
         'a class with a symmetry of order 3 is merged with another class afterwards: the generators and their proofs are transported (move_to)'),
    _ex('E4', 'Lb', 3, [add(u(k(0, 1))), add(u(j(0, 1))), unionj(k(0, 1), j(0, 1), 'kj'), explain(lam(1, u(j(1, 0))), lam(2, u(k(2, 0))))],
        'congruence under binders with different bound names (alpha-variants)'),
    _ex('E7', 'Lf', 3, [add(f(0, 1)), add(f(0, 2)), unionj(f(0, 1), f(0, 2), 'red'), explain(f(0, 1), f(0, 2)), explain(f(1, 0), f(1, 2))],
        'a redundant slot: the equation between two instances that differ in the redundant argument'),
    _ex('E9', 'Lb', 3, [add(u(t3(0, 1, 2))), add(t3(1, 2, 0)), unionj(t3(0, 1, 2), t3(1, 2, 0), 'rot'), explain(u(t3(0, 1, 2)), u(t3(1, 2, 0))), explain(lam(0, t3(0, 1, 2)), lam(0, t3(1, 2, 0)))],
        'congruence over a child class with a symmetry of order 3, also under a binder'),
]
