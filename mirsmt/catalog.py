"""Template catalogue. Names are indices; every name is a free 32-bit solver variable unless `distinct` ties it."""
from .tmpl import Template as T

def f(a, b): return ('f', a, b)
def g(a, b): return ('g', a, b)
def h(a, b, c): return ('h', a, b, c)
def var(a): return ('var', a)
def app(x, y): return ('app', x, y)
def lam(a, x): return ('lam', a, x)
def k(a, b): return ('k', a, b)
def j(a, b): return ('j', a, b)
def u(x): return ('u', x)
def add(t): return ('add', t)
def union(s, t): return ('union', s, t)
def readd(t): return ('readd', t)

QUICK = [
    # --- multi-slot leaves: redundancy, symmetry, all sharing patterns between the two sides
    T('T1', 'Lf', 4, [add(f(0, 1)), add(f(2, 3)), union(f(0, 1), f(2, 3))], note='f(a,b)=f(c,d): all 15 sharing patterns'),
    T('T2', 'Lf', 4, [add(f(0, 1)), add(g(2, 3)), union(f(0, 1), g(2, 3))], note='f(a,b)=g(c,d)'),
    T('T3', 'Lf', 3, [add(f(0, 1)), add(g(0, 1)), union(f(0, 1), g(0, 1)), add(g(0, 2)), union(g(0, 1), g(0, 2)), readd(f(0, 1))],
      note='merge, then the leader loses a slot; old handle of the merged class (C13), re-insertion (C09)'),
    T('T4', 'Lf', 3, [add(f(0, 1)), add(f(1, 0)), union(f(0, 1), f(1, 0)), add(g(0, 1)), union(g(0, 1), f(0, 1)), add(g(1, 2)), readd(g(1, 0))],
      note='acquired swap symmetry is the deprecated side of a later merge; symmetry must survive'),
    T('TH3', 'Lf', 3, [add(h(0, 1, 2)), add(h(1, 2, 0)), union(h(0, 1, 2), h(1, 2, 0)), add(h(2, 0, 1)), add(h(1, 0, 2))], distinct=[[0, 1, 2]],
      note='3-cycle symmetry (not an involution); the third rotation is implied, the swap is not'),
    T('TH2', 'Lf', 3, [add(h(0, 1, 2)), add(h(1, 0, 2)), union(h(0, 1, 2), h(1, 0, 2)), add(h(0, 2, 1)), union(h(0, 1, 2), h(0, 2, 1)), add(h(2, 1, 0)), add(h(1, 2, 0))],
      distinct=[[0, 1, 2]], note='two swaps generate S3: group grows twice; all permuted copies equal'),
    T('TH4', 'Lf', 4, [add(h(0, 1, 2)), add(h(0, 1, 3)), union(h(0, 1, 2), h(0, 1, 3)), add(h(1, 0, 2)), readd(h(0, 1, 3))], note='third argument becomes redundant (or more, depending on sharing)'),
    T('TORB', 'Lf', 4, [add(h(0, 1, 2)), add(h(1, 0, 2)), union(h(0, 1, 2), h(1, 0, 2)), add(h(3, 1, 2)), union(h(0, 1, 2), h(3, 1, 2)), add(h(0, 3, 2))],
      distinct=[[0, 1, 2, 3]], note='a slot in a non-trivial symmetry orbit becomes redundant: the whole orbit must go'),
    # --- children, binders, upward merging
    T('B1', 'Lb', 2, [add(lam(0, var(0))), add(lam(1, var(1))), add(app(lam(0, var(0)), lam(1, var(1)))), readd(lam(1, var(1)))], note='alpha-equivalent lambdas are one class with no slots'),
    T('B2', 'Lb', 3, [add(app(var(0), var(1))), add(var(2)), union(app(var(0), var(1)), var(2))], note='app(var a, var b) = var c: children, redundancy through a union, self reference when c in {a,b}'),
    T('B3', 'Lb', 3, [add(lam(0, app(var(0), var(1)))), add(lam(2, app(var(2), var(1)))), add(lam(0, app(var(0), var(2)))), union(lam(0, app(var(0), var(1))), lam(0, app(var(0), var(2))))],
      note='binder with a free name; alpha variants; free name becomes redundant under the binder'),
    T('B4', 'Lb', 2, [add(u(k(0, 1))), add(u(k(1, 0))), union(k(0, 1), k(1, 0)), add(app(k(0, 1), k(1, 0)))], note='a child class gains a swap symmetry: parents must merge by congruence'),
    T('B5', 'Lb', 2, [add(u(j(0, 1))), add(u(j(1, 0))), add(k(0, 1)), add(k(1, 0)), union(k(0, 1), k(1, 0)), union(j(0, 1), k(0, 1))],
      note='symmetric class merged into a larger symmetry-free class that has parents: parents must be re-canonicalised'),
    T('B6', 'Lb', 3, [add(u(k(0, 1))), add(k(0, 2)), union(k(0, 1), k(0, 2)), add(u(k(0, 2))), add(u(k(2, 1)))], note='child loses a slot: parent invocation shrinks, congruent parents merge'),
    T('B7', 'Lb', 2, [add(app(var(0), var(1))), add(var(0)), union(app(var(0), var(1)), var(0)), add(app(app(var(0), var(1)), var(1)))],
      note='equation whose right side mentions its own left side: x = app(x, b)'),
]


def reorder(t, mode):
    """a reordering of the same set of insertions and equations: 'flip' = every union with its sides exchanged;
    'rev' = all insertions first in reverse order, then the unions in reverse order with sides exchanged"""
    adds = [op for op in t.ops if op[0] == 'add']; unions = [op for op in t.ops if op[0] == 'union']
    if mode == 'flip': ops = [('union', op[2], op[1]) if op[0] == 'union' else op for op in t.ops if op[0] != 'readd']
    else: ops = list(reversed(adds)) + [('union', op[2], op[1]) for op in reversed(unions)]
    return T(t.name + '~' + mode, t.lang, t.nnames, ops, t.analysis, t.distinct, 'reordering (%s) of %s' % (mode, t.name), group=t.name)

def _with_groups(base, which):
    out = []
    for t in base:
        out.append(t)
        for mode in which.get(t.name, ()):
            t.group = t.name; out.append(reorder(t, mode))
    return out

QUICK = _with_groups(QUICK, {'T1': ('rev',), 'T3': ('rev',), 'T4': ('flip',), 'B2': ('flip',), 'B5': ('rev',), 'TH2': ('rev',)})

THOROUGH = []
