"""Regenerates the MIR encoding from /repo's current working tree.

A content hash over /repo's sources (src/, slotted-egraphs-derive/, Cargo.toml, Cargo.lock) and the
harness crate keys a cache under /verif/.cache/mir/<hash>/; a cache hit therefore means byte-identical
sources, a source edit always re-dumps.  Dumps are made in a scratch copy (never inside /repo) which
is removed afterwards; the source snapshot the resolver needs (src/**.rs, a few hundred KB) is kept
next to the dump.
"""
import os, sys, hashlib, shutil, subprocess, tempfile, fcntl, time, json

VERIF = os.path.dirname(os.path.dirname(os.path.abspath(__file__)))
REPO = os.environ.get('VERIF_REPO', '/repo')
CACHE = os.path.join(VERIF, '.cache')
LANG = os.path.join(VERIF, 'mirsmt', 'lang')

def _files(root, subs):
    out = []
    for s in subs:
        p = os.path.join(root, s)
        if os.path.isfile(p): out.append(p)
        elif os.path.isdir(p):
            for d, dn, fn in os.walk(p):
                dn[:] = sorted(x for x in dn if x not in ('target', '.git'))
                for f in sorted(fn): out.append(os.path.join(d, f))
    return out

def tree_hash():
    h = hashlib.sha256()
    for f in _files(REPO, ['src', 'slotted-egraphs-derive/src', 'slotted-egraphs-derive/Cargo.toml', 'Cargo.toml', 'Cargo.lock']):
        h.update(os.path.relpath(f, REPO).encode()); h.update(b'\0'); h.update(open(f, 'rb').read()); h.update(b'\0')
    for f in _files(LANG, ['src', 'Cargo.toml.in']):
        h.update(os.path.relpath(f, LANG).encode()); h.update(b'\0'); h.update(open(f, 'rb').read()); h.update(b'\0')
    return h.hexdigest()[:20]

def _run(cmd, cwd, out, env=None):
    e = dict(os.environ); e['CARGO_NET_OFFLINE'] = 'true'; e.pop('RUSTFLAGS', None)
    if env: e.update(env)
    with open(out, 'wb') as fo:
        p = subprocess.run(cmd, cwd=cwd, stdout=fo, stderr=subprocess.PIPE, env=e)
    if p.returncode != 0:
        sys.stderr.write(p.stderr.decode(errors='replace')[-4000:])
        raise RuntimeError('MIR dump failed: ' + ' '.join(cmd))

def variant_name(features=(), overflow=True):
    return ('ovf' if overflow else 'wrap') + ''.join('+' + f for f in sorted(features))

def get(features=(), overflow=True):
    """returns dict(dir, crate_mir, hx_mir, src_root, hx_root, hash) for the current /repo tree"""
    th = tree_hash(); var = variant_name(features, overflow)
    base = os.path.join(CACHE, 'mir', th); d = os.path.join(base, var)
    os.makedirs(base, exist_ok=True)
    res = dict(dir=d, crate_mir=os.path.join(d, 'crate.mir'), hx_mir=os.path.join(d, 'hx.mir'), src_root=os.path.join(base, 'snapshot'),
               hx_root=LANG, hash=th, variant=var)
    lock = open(os.path.join(base, '.lock.' + var), 'w')
    fcntl.flock(lock, fcntl.LOCK_EX)
    try:
        if os.path.exists(os.path.join(d, 'ok')): return res
        t0 = time.time()
        scratch = tempfile.mkdtemp(prefix='verif-mir-', dir=os.environ.get('VERIF_SCRATCH'))
        try:
            repo = os.path.join(scratch, 'repo')
            shutil.copytree(REPO, repo, ignore=shutil.ignore_patterns('target', '.git', 'benches', 'tests'))
            # Cargo.toml references a bench target: drop it from the scratch copy only
            ct = open(os.path.join(repo, 'Cargo.toml')).read()
            ct = ct.split('[[bench]]')[0]
            open(os.path.join(repo, 'Cargo.toml'), 'w').write(ct)
            os.makedirs(d, exist_ok=True)
            feat = ['--features', ','.join(features)] if features else []
            flags = ['-Zunpretty=mir', '-C', 'debug-assertions=off', '-C', 'overflow-checks=' + ('on' if overflow else 'off')]
            _run(['cargo', '+nightly', 'rustc', '--offline', '--lib'] + feat + ['--'] + flags, repo, res['crate_mir'] + '.tmp',
                 env={'CARGO_TARGET_DIR': os.path.join(scratch, 'target')})
            hx = os.path.join(scratch, 'hx'); shutil.copytree(LANG, hx)
            fs = (', features = [' + ', '.join('"%s"' % f for f in features) + ']') if features else ''
            open(os.path.join(hx, 'Cargo.toml'), 'w').write(open(os.path.join(LANG, 'Cargo.toml.in')).read().replace('@REPO@', repo).replace('@FEATURES@', fs))
            shutil.copy(os.path.join(REPO, 'Cargo.lock'), os.path.join(hx, 'Cargo.lock'))
            _run(['cargo', '+nightly', 'rustc', '--offline', '--lib', '--'] + flags, hx, res['hx_mir'] + '.tmp',
                 env={'CARGO_TARGET_DIR': os.path.join(scratch, 'target')})
            os.replace(res['crate_mir'] + '.tmp', res['crate_mir']); os.replace(res['hx_mir'] + '.tmp', res['hx_mir'])
            snap = res['src_root']
            if not os.path.exists(snap):
                tmp = snap + '.tmp%d' % os.getpid()
                shutil.copytree(os.path.join(repo, 'src'), os.path.join(tmp, 'src'))
                os.replace(tmp, snap)
            json.dump({'dump_s': round(time.time() - t0, 1), 'features': list(features), 'overflow': overflow}, open(os.path.join(d, 'ok'), 'w'))
        finally:
            shutil.rmtree(scratch, ignore_errors=True)
        _prune(base)
        return res
    finally:
        fcntl.flock(lock, fcntl.LOCK_UN); lock.close()

def _prune(keep):
    """keep the cache small: remove dumps of other trees beyond the newest 3, but never one touched in the last 2 hours
    (a concurrent check of another tree may be writing or reading it)"""
    root = os.path.join(CACHE, 'mir')
    ds = sorted((os.path.getmtime(os.path.join(root, x)), x) for x in os.listdir(root) if os.path.isdir(os.path.join(root, x)))
    for _, x in ds[:-3]:
        if os.path.join(root, x) != keep and time.time() - _ > 7200: shutil.rmtree(os.path.join(root, x), ignore_errors=True)

if __name__ == '__main__':
    r = get(tuple(a for a in sys.argv[1:] if not a.startswith('-')), overflow='--wrap' not in sys.argv)
    print(json.dumps(r, indent=1))
