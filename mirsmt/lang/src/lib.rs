// Harness crate for E2: instantiates /repo's define_language! so that the macro-generated impls are in the MIR dump.
// Nothing here is executed natively by the checks; the MIR of this crate is executed symbolically.
use slotted_egraphs::*;

define_language! {
    pub enum Lf {
        F(Slot, Slot) = "f",
        G(Slot, Slot) = "g",
        H(Slot, Slot, Slot) = "h",
        W(Slot, Slot, Slot, Slot) = "w",
    }
}

define_language! {
    pub enum Lb {
        Var(Slot) = "var",
        App(AppliedId, AppliedId) = "app",
        Lam(Bind<AppliedId>) = "lam",
        K(Slot, Slot) = "k",
        U(AppliedId) = "u",
        J(Slot, Slot) = "j",
        T3(Slot, Slot, Slot) = "t3",
        S3(Slot, Slot, Slot) = "s3",
        M3(Slot, Slot, Slot) = "m3",
        At(Slot, AppliedId) = "at",
        Ta(AppliedId, Slot) = "ta",
        W4(Slot, Slot, Slot, Slot) = "w4",
        V4(Slot, Slot, Slot, Slot) = "v4",
        Lt(AppliedId, Bind<AppliedId>) = "lt",
    }
}

define_language! {
    pub enum Lc {
        CVar(Slot) = "cvar",
        CF2(Slot, Slot) = "cf2",
        CF3(Slot, Slot, Slot) = "cf3",
        CLam(Bind<AppliedId>) = "clam",
        CLam2(Bind<Bind<AppliedId>>) = "clam2",
        CLet(Bind<AppliedId>, AppliedId) = "clet",
        CLte(AppliedId, Bind<AppliedId>) = "clte",
        CLtx(AppliedId, Bind<AppliedId>, AppliedId) = "cltx",
        CApp(AppliedId, AppliedId) = "capp",
        CNum(u32),
    }
}

// C18: a language with payload variants (a number before a symbol: a numeral is "accepted by an earlier payload variant")
define_language! {
    pub enum Lp {
        PU(AppliedId) = "pu",
        PV(Slot) = "pv",
        PC(u32) = "pc",
        PNum(u32),
        PSym(Symbol),
    }
}

// C03: arithmetic over a prime field with a summation binder and a let binder (the model lives in mirsmt/model_eval.py)
define_language! {
    pub enum Lm {
        MVar(Slot) = "mvar",
        MAdd(AppliedId, AppliedId) = "madd",
        MMul(AppliedId, AppliedId) = "mmul",
        MSum(Bind<AppliedId>) = "msum",
        MLet(Bind<AppliedId>, AppliedId) = "mlet",
    }
}

/// condition of the conditional rule of C03: the class bound to ?b does not depend on the pattern slot x
pub fn cond_b_independent_of<N: Analysis<Lm>>(x: Slot) -> impl Fn(&Subst, &EGraph<Lm, N>) -> bool {
    move |s, _eg| !s.get("b").unwrap().slots().contains(&x)
}

#[derive(Default)]
pub struct MinSize;
impl Analysis<Lb> for MinSize {
    type Data = u32;
    fn make(eg: &EGraph<Lb, Self>, enode: &Lb) -> u32 {
        let mut s = 1u32;
        for x in enode.applied_id_occurrences() {
            s = s.saturating_add(*eg.analysis_data(x.id));
        }
        s
    }
    fn merge(l: u32, r: u32) -> u32 {
        if l < r { l } else { r }
    }
}

#[derive(Default)]
pub struct Depth;
impl Analysis<Lb> for Depth {
    type Data = u32;
    fn make(eg: &EGraph<Lb, Self>, enode: &Lb) -> u32 {
        let mut d = 0u32;
        for x in enode.applied_id_occurrences() {
            let c = *eg.analysis_data(x.id);
            if c > d { d = c; }
        }
        d.saturating_add(1)
    }
    fn merge(l: u32, r: u32) -> u32 {
        if l < r { l } else { r }
    }
}

// C14: constant folding with a modify hook (the analysis of /repo's own tests/arith/const_prop.rs, on a language with a slot-carrying
// variable and a binder so that slots, redundancy and constants interact)
define_language! {
    pub enum La {
        AVar(Slot) = "avar",
        AAdd(AppliedId, AppliedId) = "aadd",
        AMul(AppliedId, AppliedId) = "amul",
        ALam(Bind<AppliedId>) = "alam",
        ANum(u32),
    }
}

#[derive(Default)]
pub struct ConstProp;
impl Analysis<La> for ConstProp {
    type Data = Option<u32>;
    fn make(eg: &EGraph<La, Self>, enode: &La) -> Option<u32> {
        match enode {
            La::ANum(x) => Some(*x),
            La::AAdd(x, y) => match (*eg.analysis_data(x.id), *eg.analysis_data(y.id)) { (Some(a), Some(b)) => Some(a.wrapping_add(b)), _ => None },
            La::AMul(x, y) => match (*eg.analysis_data(x.id), *eg.analysis_data(y.id)) { (Some(a), Some(b)) => Some(a.wrapping_mul(b)), _ => None },
            _ => None,
        }
    }
    fn merge(l: Option<u32>, r: Option<u32>) -> Option<u32> {
        match (l, r) {
            (Some(a), Some(b)) => Some(if a < b { a } else { b }),      // two different constants in one class only arise from an unsound history; total and a semilattice all the same
            (Some(a), None) => Some(a),
            (None, Some(b)) => Some(b),
            (None, None) => None,
        }
    }
    fn modify(eg: &mut EGraph<La, Self>, i: Id) {
        if let Some(x) = *eg.analysis_data(i) {
            let a = eg.add(La::ANum(x));
            let b = eg.mk_identity_applied_id(i);
            eg.union(&a, &b);
        }
    }
}

/// per-operator weighted size (C06)
#[derive(Default)]
pub struct Weighted;
impl CostFunction<Lb> for Weighted {
    type Cost = u64;
    fn cost<C>(&self, enode: &Lb, costs: C) -> u64 where C: Fn(Id) -> u64 {
        let w: u64 = match enode { Lb::Var(_) => 1, Lb::App(..) => 3, Lb::Lam(_) => 2, Lb::K(..) => 5, Lb::U(_) => 1, Lb::J(..) => 4, Lb::T3(..) => 6, Lb::S3(..) => 7, Lb::M3(..) => 9, Lb::At(..) => 2, Lb::Ta(..) => 2, Lb::W4(..) => 8, Lb::V4(..) => 8, Lb::Lt(..) => 2 };
        let mut s = w;
        for x in enode.applied_id_occurrences() {
            s = s.saturating_add(costs(x.id));
        }
        s
    }
}
#[derive(Default)]
pub struct WeightedF;
impl CostFunction<Lf> for WeightedF {
    type Cost = u64;
    fn cost<C>(&self, enode: &Lf, _costs: C) -> u64 where C: Fn(Id) -> u64 {
        match enode { Lf::F(..) => 3, Lf::G(..) => 2, Lf::H(..) => 5, Lf::W(..) => 7 }
    }
}
