"""Shared template exploration: explore (cached by content hash), validate natively, judge against the oracle."""
import os, sys, json, time, hashlib, fcntl, traceback
from concurrent.futures import ProcessPoolExecutor, as_completed
from . import dump, native, judge
from .engine import Unsupported, Budget
from .tmpl import Template, explore_template, F0_DEFAULT, NAMED_MAX

PATHS = os.path.join(dump.CACHE, 'paths')

def _engine_hash():
    h = hashlib.sha256()
    d = os.path.dirname(os.path.abspath(__file__))
    for f in sorted(os.listdir(d)):
        if f in ('engine.py', 'models.py', 'crate_models.py', 'resolver.py', 'session.py', 'tmpl.py', 'dump.py'): h.update(open(os.path.join(d, f), 'rb').read())
    return h.hexdigest()[:16]

def cache_key(mir_hash, variant, tmpl, hash_order, extra=''):
    return hashlib.sha256(json.dumps([mir_hash, variant, _engine_hash(), tmpl.key(), hash_order, extra]).encode()).hexdigest()[:24]

def _explore_one(args):
    """worker: returns path to cached result json (explores on a miss)"""
    features, overflow, tmpl, hash_order, budget_paths, budget_s = args
    from .session import Session
    S = Session(features, overflow)
    os.makedirs(PATHS, exist_ok=True)
    key = cache_key(S.mir_hash, S.info['variant'], tmpl, hash_order)
    path = os.path.join(PATHS, key + '.json')
    lock = open(path + '.lock', 'w'); fcntl.flock(lock, fcntl.LOCK_EX)
    try:
        if os.path.exists(path):
            try:
                if json.load(open(path)).get('status') == 'ok': return path, True      # only completed explorations are reused
            except Exception: pass
        try:
            r = explore_template(S, tmpl, budget_paths=budget_paths, budget_s=budget_s, hash_order=hash_order)
            r['status'] = 'ok'
        except (Unsupported, Budget) as e:
            r = {'template': tmpl.name, 'status': 'inconclusive', 'reason': type(e).__name__ + ': ' + str(e)[:500], 'paths': [], 'stats': {}}
        except Exception as e:
            r = {'template': tmpl.name, 'status': 'inconclusive', 'reason': 'executor error ' + type(e).__name__ + ': ' + str(e)[:300] + ' | ' + traceback.format_exc()[-600:], 'paths': [], 'stats': {}}
        r['mir_hash'] = S.mir_hash; r['variant'] = S.info['variant']
        tmp = path + '.tmp%d' % os.getpid()
        json.dump(r, open(tmp, 'w'), default=str)
        os.replace(tmp, path)
        return path, False
    finally:
        fcntl.flock(lock, fcntl.LOCK_UN); lock.close()

def explore_all(templates, features=(), overflow=True, hash_orders=('ins',), jobs=None, budget_paths=5000, budget_s=1200):
    """-> {(template name, hash_order): result dict}"""
    dump.get(tuple(features), overflow)        # dump once before forking workers
    tasks = [(tuple(features), overflow, t, ho, budget_paths, budget_s) for t in templates for ho in hash_orders]
    out = {}
    jobs = jobs or min(len(tasks), os.cpu_count() or 4)
    if jobs <= 1 or len(tasks) == 1:
        for a in tasks:
            p, hit = _explore_one(a); r = json.load(open(p)); r['cache_hit'] = hit; out[(a[2].name, a[3])] = r
        return out
    with ProcessPoolExecutor(max_workers=jobs) as pool:
        futs = {pool.submit(_explore_one, a): a for a in tasks}
        for f in as_completed(futs):
            a = futs[f]; p, hit = f.result(); r = json.load(open(p)); r['cache_hit'] = hit; out[(a[2].name, a[3])] = r
    return out

def validate_native(templates, results, profile='release', features=()):
    """runs every record's concrete model natively; returns (n_validated, mismatches[], native_records{})"""
    tmap = {t.name: t for t in templates}
    text = []; index = {}
    for (tname, ho), r in results.items():
        if r.get('status') != 'ok': continue
        for pi, p in enumerate(r['paths']):
            for ri, rec in enumerate(p['records']):
                cid = '%s|%s|%d|%d' % (tname, ho, pi, ri)
                text.append(native.case_text(cid.replace(' ', '_'), tmap[tname], rec['values'], F0_DEFAULT, NAMED_MAX))
                index[cid.replace(' ', '_')] = (tname, ho, pi, ri)
    if not text: return 0, [], {}
    nat = native.run_cases(''.join(text), profile, features=features)
    mism = []; ok = 0
    for cid, (tname, ho, pi, ri) in index.items():
        rec = results[(tname, ho)]['paths'][pi]['records'][ri]
        n = nat.get(cid)
        if n is None: mism.append((cid, 'no native result')); continue
        d = native.compare(rec, n)
        if d: mism.append((cid, d[:4]))
        else: ok += 1
    return ok, mism, nat

def judge_all(templates, results):
    """-> list of findings: dict(template, hash_order, path, pattern, values, kind, prop, step, detail)"""
    tmap = {t.name: t for t in templates}
    out = []
    for (tname, ho), r in results.items():
        if r.get('status') != 'ok': continue
        for pi, p in enumerate(r['paths']):
            for rec in p['records']:
                for kind, step, detail in (judge.judge_model_record if getattr(tmap[tname], 'model', False) else judge.judge_record)(tmap[tname], rec):
                    out.append({'template': tname, 'hash_order': ho, 'path': pi, 'pattern': rec['pattern'], 'values': rec['values'],
                                'kind': kind, 'prop': judge.KIND_PROP.get(kind, '?'), 'step': step, 'detail': detail})
    return out
