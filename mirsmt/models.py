"""Library models for E2: callees from std / smallvec / vec-collections / hashbrown / rustc-hash.

Each model is registered with a regular expression over the callee text of a MIR call terminator.
The first matching model (registration order) is memoised per distinct callee text.
Models marked first=True take precedence over a crate function of the same name (used for
derived Clone / PartialEq, whose structural meaning is modelled directly).

Container models (the claim is relative to these):
  SmallVec<[T;N]>  sequence; pushing past N is a model panic ("model: inline capacity exceeded")
  Vec<T>           sequence
  VecSet<[T;N]>    sorted duplicate-free sequence (ordering decided by the solver)
  HashMap/VecMap   association list in insertion order, key equality decided by the solver
  HashSet          list in insertion order
  iterators        lazy Python generators (closures run when an element is pulled)
Hash iteration order: ex.hash_order in {'ins','rev','rot'} permutes the iteration order of hash containers.
"""
import re, itertools
import z3
from .engine import *

class It:
    """lazy iterator"""
    __slots__ = ('g',)
    def __init__(self, g): self.g = iter(g)
    def __iter__(self): return self.g
    def nxt(self):
        try: return some(next(self.g))
        except StopIteration: return none()

class Handler:
    """all models matching a callee text, in registration order; a model may decline by returning NotImplemented"""
    __slots__ = ('name', 'chain', 'first')
    def __init__(self, chain): self.chain = chain; self.name = chain[0][0]; self.first = chain[0][2]
    def __call__(self, ex, callee, args):
        for name, fn, first, m in self.chain:
            r = fn(ex, callee, args, m)
            if r is not NotImplemented:
                self.name = name; return r
        return NotImplemented

class Models:
    def __init__(self):
        self.entries = []; self.memo = {}; self.consts = {}
    def add(self, pattern, first=False, name=None, front=False):
        rx = re.compile(pattern)
        def deco(fn):
            e = (rx, fn, first, name or fn.__name__)
            if front: self.entries.insert(0, e)
            else: self.entries.append(e)
            self.memo.clear()
            return fn
        return deco
    def lookup(self, ex, callee):
        h = self.memo.get(callee, 0)
        if h != 0: return h
        chain = []
        for rx, fn, first, name in self.entries:
            m = rx.search(callee)
            if m: chain.append((name, fn, first, m))
        h = Handler(chain) if chain else None
        self.memo[callee] = h
        return h
    def dynamic(self, ex, callee, args): return NotImplemented
    def constant(self, ex, body):
        for rx, f in self.consts.items():
            if re.search(rx, body): return f(ex, body)
        return None
    def names(self): return sorted({e[3] for e in self.entries})

M = Models()

# ------------------------------------------------------------------ helpers
def tolist(ex, it):
    it = dd(it) if isinstance(it, Ref) else it
    if isinstance(it, It): return list(it.g)
    if isinstance(it, list): return it
    if isinstance(it, SliceRef): return [Ref(it.lst, i) for i in range(it.start, it.end)]
    if isinstance(it, HM): return [tup(k, v) for k, v in hash_order(ex, it.items)]
    if isinstance(it, HS): return list(hash_order(ex, it.items))
    if isinstance(it, VecVal): return list(it.items)
    if isinstance(it, Struct) and it.tag and 'Range' in it.tag: return [U64(i) for i in range(conc(it.f[0]), conc(it.f[1]))]
    if isinstance(it, Enum): return [it.payload.f[0]] if it.disc == 1 else []
    raise Unsupported('tolist? ' + repr(it)[:100])

def as_it(ex, x):
    x = dd(x) if isinstance(x, Ref) else x
    if isinstance(x, It): return x
    return It(tolist(ex, x))

def hash_order(ex, items):
    o = getattr(ex, 'hash_order', 'ins')
    if o == 'ins' or len(items) < 2: return list(items)
    if o == 'rev': return list(reversed(items))
    if o == 'rot': return list(items[1:]) + [items[0]]
    raise Unsupported('hash order ' + o)

def closure_fn(ex, v, hint=None):
    v = dd(v)
    if isinstance(v, Struct) and v.tag and v.tag.startswith('closure@'):
        f = ex.resolver.closure(v.tag[len('closure@'):], hint)
        if f: return f
        raise Unsupported('no MIR for closure ' + v.tag)
    if isinstance(v, Opaque) and v.what[0] in ('fnitem', 'zst'):
        s = v.what[1]
        mm = re.search(r'closure@([^}]*)\}', s)
        if mm:
            f = ex.resolver.closure(mm.group(1), hint)
            if f: return f
        return ('callee', s)
    raise Unsupported('not callable: ' + repr(v)[:80])

class PyFn:
    """a harness-supplied function value (an environment stub passed where the crate expects a closure)"""
    def __init__(self, fn): self.fn = fn

def call_fn(ex, f, args, hint=None):
    """call a closure value / fn item with explicit argument values (closure env passed by reference)"""
    fv = dd(f)
    if isinstance(fv, PyFn): return fv.fn(ex, *args)
    t = closure_fn(ex, fv, hint)
    if isinstance(t, tuple): return ex.call_callee(t[1], list(args))
    fn = ex.fns[t]
    a0 = fn.argtys[0] if fn.argtys else ''
    env = f if isinstance(f, Ref) else Ref({'e': fv}, 'e')
    if a0.startswith('&'): return ex.call(t, [env] + list(args))
    return ex.call(t, [fv] + list(args))

def lt(ex, a, b):
    """strict order on model values used in sorted containers (Slot, Id, integers, tuples lexicographic)"""
    a, b = dd(a), dd(b)
    if z3.is_bv(a): return ex.decide(z3.ULT(a, b))
    if isinstance(a, Struct):
        for k in sorted(a.f):
            if lt(ex, a.f[k], b.f[k]): return True
            if not ex.decide(val_eq(a.f[k], b.f[k])): return False
        return False
    if isinstance(a, VecVal):
        for x, y in zip(a.items, b.items):
            if lt(ex, x, y): return True
            if not ex.decide(val_eq(x, y)): return False
        return len(a.items) < len(b.items)
    if isinstance(a, Enum):
        da, db = a.disc, b.disc
        if not z3.is_expr(da) and not z3.is_expr(db):
            if da != db: return da < db
            return lt(ex, a.payload, b.payload)
    if isinstance(a, str): return str(a) < str(b)
    raise Unsupported('lt? ' + type(a).__name__)

def ordering(ex, a, b):
    if lt(ex, a, b): return Enum(-1)
    if ex.decide(val_eq(a, b)): return Enum(0)
    return Enum(1)

def hm_find(ex, m, k):
    for it in m.items:
        if ex.decide(val_eq(it[0], k)): return it
    return None
def hs_has(ex, s, k):
    for x in s.items:
        if ex.decide(val_eq(x, k)): return True
    return False
def vs_insert(ex, vs, x):
    x = dd(x)
    for i, y in enumerate(vs.items):
        if ex.decide(val_eq(y, x)): return False
        if lt(ex, x, y): vs.items.insert(i, x); return True
    vs.items.append(x); return True
def vs_from(ex, xs):
    vs = VS()
    for x in xs: vs_insert(ex, vs, cp(dd(x)))
    return vs
def vs_has(ex, vs, x):
    x = dd(x)
    return any(ex.decide(val_eq(y, x)) for y in vs.items)

def B(b): return z3.BoolVal(bool(b))
def truth(ex, v):
    return ex.decide(v) if z3.is_expr(v) else bool(v)
def arg0(args): return dd(args[0])

# ------------------------------------------------------------------ panics / fmt
@M.add(r'^(core|std)::panicking::(panic|panic_fmt|panic_display|panic_explicit|unreachable_display|panic_nounwind|panic_str_2015|panic_bounds_check)\b|::begin_panic|^core::panicking::assert_failed|^core::option::(expect_failed|unwrap_failed)|^core::result::unwrap_failed|^std::rt::(panic_fmt|begin_panic)')
def m_panic(ex, c, args, m):
    msg = ''
    for a in args:
        a = dd(a) if isinstance(a, Ref) else a
        if isinstance(a, str): msg = str(a); break
        if isinstance(a, Struct) and a.tag == 'Arguments': msg = a.f.get('s', ''); break
    import re as _re
    msg = _re.sub(r'\\x[0-9a-f]{2}|[^\x20-\x7e]', '', msg)
    raise Panic('panic: ' + (msg or c[:60]))

@M.add(r'^(core::fmt::)?Arguments::<.*>::(new|new_const|new_v1|from_str|new_v1_formatted)')
def m_fmt_args(ex, c, args, m):
    s = ''
    a = dd(args[0]) if args else None
    if isinstance(a, str): s = str(a)
    elif isinstance(a, Opaque) and a.what[0] == 'bytes': s = a.what[1]
    elif isinstance(a, SliceRef): s = ''.join(str(dd(x)) for x in a.items() if isinstance(dd(x), str))
    return Struct({'s': s, 'args': args[1:]}, 'Arguments')
@M.add(r'^core::fmt::rt::Argument::<.*>::new_(display|debug|lower_hex)')
def m_fmt_arg(ex, c, args, m): return Struct({0: args[0], 'kind': m.group(1), 'callee': c}, 'FmtArg')
@M.add(r'^(std|alloc)::fmt::format\b|^format::|::fmt::format$')
def m_format(ex, c, args, m):
    h = getattr(ex, 'format_hook', None)
    if h: return h(ex, args[0])
    return PyStr('<formatted>')
@M.add(r'^std::io::_e?print$')
def m_print(ex, c, args, m): return Unit()
@M.add(r'^std::fmt::Formatter::<.*>::(write_fmt|write_str|debug_\w+|pad)')
def m_formatter(ex, c, args, m):
    h = getattr(ex, 'write_hook', None)
    if h: return h(ex, m.group(1), args)
    return ok(Unit())

# ------------------------------------------------------------------ Clone / PartialEq / Default / misc
@M.add(r' as Clone>::clone$', first=True)
def m_clone(ex, c, args, m):
    v = deref(args[0])
    if isinstance(v, BoxRef): return boxed(cp(deref(v)))
    return cp(v)
@M.add(r'^<std::collections::(HashMap|HashSet)<.*> as PartialEq>::(eq|ne)$')
def m_hash_eq(ex, c, args, m):
    a, b = dd(args[0]), dd(args[1]); res = len(a.items) == len(b.items)
    if res:
        for it in a.items:
            if m.group(1) == 'HashMap':
                jt = hm_find(ex, b, it[0])
                if jt is None or not ex.decide(val_eq(it[1], jt[1])): res = False; break
            else:
                if not hs_has(ex, b, it): res = False; break
    return B(res if m.group(2) == 'eq' else not res)
@M.add(r'^<.* as PartialEq(<.*>)?>::(eq|ne)$', first=True)
def m_eq(ex, c, args, m):
    a, b = dd(args[0]), dd(args[1])
    if isinstance(a, (HM, HS)) : return m_hash_eq(ex, c, args, re.match(r'()(..)', m.group(2)) if False else _HashEqM(a, m.group(2)))
    e = val_eq(a, b); return e if m.group(2) == 'eq' else z3.Not(e)
class _HashEqM:
    def __init__(self, a, op): self.a, self.op = a, op
    def group(self, i): return ('HashMap' if isinstance(self.a, HM) else 'HashSet') if i == 1 else self.op
@M.add(r'^<.* as (?:Partial)?Ord>::(partial_cmp|cmp)$', first=True)
def m_cmp(ex, c, args, m):
    o = ordering(ex, args[0], args[1]); return some(o) if m.group(1) == 'partial_cmp' else o
@M.add(r'^<.* as PartialOrd>::(lt|le|gt|ge)$', first=True)
def m_ord_op(ex, c, args, m):
    a, b = dd(args[0]), dd(args[1]); op = m.group(1)
    if z3.is_bv(a): return {'lt': z3.ULT, 'le': z3.ULE, 'gt': z3.UGT, 'ge': z3.UGE}[op](a, b)
    l = lt(ex, a, b); e = (not l) and ex.decide(val_eq(a, b))
    return B({'lt': l, 'le': l or e, 'gt': not l and not e, 'ge': not l}[op])
@M.add(r'^(std::cmp::|core::cmp::)?(max|min)::<')
def m_maxmin(ex, c, args, m):
    a, b = args
    if m.group(2) == 'max': return b if not lt(ex, b, a) else a
    return a if not lt(ex, b, a) else b
@M.add(r'^<std::collections::HashMap<.*> as Default>::default$|^std::collections::HashMap::<.*>::(new|with_hasher|default)$|^<VecMap<.*> as Default>::default$|^<std::collections::BTreeMap<.*> as Default>::default$')
def m_hm_default(ex, c, args, m): return HM()
@M.add(r'^<std::collections::HashSet<.*> as Default>::default$|^std::collections::HashSet::<.*>::(new|with_hasher|default)$')
def m_hs_default(ex, c, args, m): return HS()
@M.add(r'^<(RefCell<)?Vec<.*> as Default>::default$|^Vec::<.*>::(new|with_capacity)$')
def m_vec_new(ex, c, args, m): return VecVal([])
@M.add(r'^<\(\) as Default>::default$')
def m_unit_default(ex, c, args, m): return Unit()
@M.add(r'^<String as Default>::default$|^String::new$')
def m_string_default(ex, c, args, m): return PyStr('')
@M.add(r'^<Option<.*> as Default>::default$')
def m_opt_default(ex, c, args, m): return none()
@M.add(r'^<(usize|u32|u64) as Default>::default$')
def m_int_default(ex, c, args, m): return z3.BitVecVal(0, 32 if m.group(1) == 'u32' else 64)
@M.add(r'^<bool as Default>::default$')
def m_bool_default(ex, c, args, m): return B(False)
@M.add(r'^RefCell::<.*>::(borrow|borrow_mut|get_mut)$|^RefCell::<.*>::new$|^Cell::<.*>::new$')
def m_refcell(ex, c, args, m): return args[0]
@M.add(r'^<Ref(Mut)?<.*> as (std::ops::)?Deref(Mut)?>::deref(_mut)?$')
def m_ref_deref(ex, c, args, m):
    r = deref(args[0]); return r
@M.add(r'^<Box<.*> as (std::ops::)?Deref(Mut)?>::deref(_mut)?$|^<Box<.*> as (AsRef|AsMut|Borrow)<.*>>::')
def m_box_deref(ex, c, args, m):
    b = deref(args[0]); return Ref(b.c, b.k)
# ---- Rc / Arc / RefCell: shared cells (a BoxRef is shared by reference: cp() does not copy it); no borrow tracking
@M.add(r'^<(Rc|Arc|std::rc::Rc|std::sync::Arc)<.*> as Default>::default$')
def m_rc_default(ex, c, args, m):
    inner = HM() if 'HashMap' in c else HS() if 'HashSet' in c else VecVal([]) if 'Vec<' in c else None
    if inner is None: raise Unsupported('default of ' + c)
    return boxed(inner)      # RefCell is transparent (see m_refcell)
@M.add(r'^(std::rc::|std::sync::)?(Rc|Arc)::<.*>::new$')
def m_rc_new(ex, c, args, m): return boxed(args[0])
@M.add(r'^<(std::rc::|std::sync::)?(Rc|Arc)<.*> as Clone>::clone$')
def m_rc_clone(ex, c, args, m): return deref(args[0])
@M.add(r'^<(std::rc::|std::sync::)?(Rc|Arc)<.*> as (std::ops::)?Deref>::deref$|^<(std::rc::|std::sync::)?(Rc|Arc)<.*> as (AsRef|Borrow)<.*>>::')
def m_rc_deref(ex, c, args, m):
    b = deref(args[0]); return Ref(b.c, b.k)
@M.add(r'^Box::<.*>::new$|^Box::<.*>::pin$')
def m_box_new(ex, c, args, m): return boxed(args[0])
@M.add(r'^Box::<\[.*\]>::new_uninit$|^Box::<.*>::new_uninit$')
def m_box_uninit(ex, c, args, m): return new_uninit_box()
@M.add(r'box_assume_init_into_vec_unsafe')
def m_box_into_vec(ex, c, args, m):
    arr = args[0].c[args[0].k].content; return VecVal([arr.f[i] for i in sorted(arr.f)])
@M.add(r'^core::slice::<impl \[.*\]>::into_vec|^slice::<impl \[.*\]>::into_vec')
def m_into_vec(ex, c, args, m):
    b = args[0]; arr = dd(b)
    if isinstance(arr, BoxCell): arr = arr.content
    if isinstance(arr, Struct): return VecVal([arr.f[i] for i in sorted(arr.f)])
    if isinstance(arr, SliceRef): return VecVal(arr.items())
    raise Unsupported('into_vec of ' + type(arr).__name__)
@M.add(r'^(std::mem::|core::mem::)?(discriminant)::<')
def m_discr(ex, c, args, m):
    v = dd(args[0]); return Struct({0: v.disc if z3.is_expr(v.disc) else z3.BitVecVal(v.disc, 64)}, 'Discriminant')
@M.add(r'^(std::mem::|core::mem::)?take::<')
def m_take(ex, c, args, m):
    r = args[0]; v = r.c[r.k]
    if isinstance(v, VecVal): r.c[r.k] = type(v)([])
    elif isinstance(v, HM): r.c[r.k] = HM()
    elif isinstance(v, Enum): r.c[r.k] = none()
    elif isinstance(v, str): r.c[r.k] = PyStr('')
    else: raise Unsupported('mem::take of ' + type(v).__name__)
    return v
@M.add(r'^(std::mem::|core::mem::)?replace::<')
def m_replace(ex, c, args, m):
    r = args[0]; v = r.c[r.k]; r.c[r.k] = args[1]; return v
@M.add(r'^(std::mem::|core::mem::)?swap::<')
def m_swap(ex, c, args, m):
    a, b = args; a.c[a.k], b.c[b.k] = b.c[b.k], a.c[a.k]; return Unit()
@M.add(r'^(std::mem::|core::mem::)?drop::<|^(std::mem::|core::mem::)?forget::<| as Drop>::drop$')
def m_drop(ex, c, args, m): return Unit()
@M.add(r'^<.* as (Into|From)<.*>>::(into|from)$')
def m_into(ex, c, args, m):
    if re.match(r'^<Vec<.*> as Into<VecSet<', c) or re.match(r'^<VecSet<.*> as From<Vec<', c): return vs_from(ex, args[0].items)
    if re.match(r'^<String as From<&str>>', c) or re.match(r'^<&str as Into<String>>', c): return PyStr(dd(args[0]))
    if re.match(r'^<String as From<String>>', c): return args[0]
    if re.match(r'^<(u64|usize) as From<u32>>', c): return z3.ZeroExt(32, args[0])
    return NotImplemented
@M.add(r'^<(u64|usize|u32) as TryFrom<(usize|u64|u32)>>::try_from$')
def m_tryfrom(ex, c, args, m):
    wt = 32 if m.group(1) == 'u32' else 64; v = args[0]
    if v.size() == wt: return ok(v)
    if v.size() < wt: return ok(z3.ZeroExt(wt - v.size(), v))
    if ex.decide(z3.Extract(v.size() - 1, wt, v) == 0): return ok(z3.Extract(wt - 1, 0, v))
    return err(Unit())

# ------------------------------------------------------------------ integers
def _sat_add(a, b):
    n = a.size(); w = z3.ZeroExt(1, a) + z3.ZeroExt(1, b)
    return z3.If(z3.Extract(n, n, w) == 1, z3.BitVecVal(2**n - 1, n), z3.Extract(n - 1, 0, w))
@M.add(r'^core::num::<impl (u32|u64|usize)>::(saturating_add|saturating_sub|wrapping_add|wrapping_sub|wrapping_mul|checked_add|checked_sub|checked_mul|pow|max|min|abs_diff|is_power_of_two|leading_zeros|trailing_zeros)$')
def m_num(ex, c, args, m):
    op = m.group(2); a = args[0]; b = args[1] if len(args) > 1 else None
    if op == 'saturating_add': return _sat_add(a, b)
    if op == 'saturating_sub': return z3.If(z3.ULT(a, b), z3.BitVecVal(0, a.size()), a - b)
    if op == 'wrapping_add': return a + b
    if op == 'wrapping_sub': return a - b
    if op == 'wrapping_mul': return a * b
    n = a.size()
    if op == 'checked_add':
        w = z3.ZeroExt(1, a) + z3.ZeroExt(1, b)
        return none() if ex.decide(z3.Extract(n, n, w) == 1) else some(z3.Extract(n - 1, 0, w))
    if op == 'checked_sub': return none() if ex.decide(z3.ULT(a, b)) else some(a - b)
    if op == 'checked_mul':
        w = z3.ZeroExt(n, a) * z3.ZeroExt(n, b)
        return none() if ex.decide(z3.Extract(2 * n - 1, n, w) != 0) else some(z3.Extract(n - 1, 0, w))
    if op == 'max': return z3.If(z3.UGE(a, b), a, b)
    if op == 'min': return z3.If(z3.ULE(a, b), a, b)
    raise Unsupported('num op ' + op)

# ------------------------------------------------------------------ Option / Result
@M.add(r'^(std::option::)?Option::<.*>::(unwrap|expect)$')
def m_opt_unwrap(ex, c, args, m):
    o = args[0]
    if z3.is_expr(o.disc):
        if not ex.decide(o.disc == 1): raise Panic('called `Option::unwrap()` on a `None` value')
    elif o.disc == 0:
        msg = str(dd(args[1])) if len(args) > 1 and isinstance(dd(args[1]), str) else 'called `Option::unwrap()` on a `None` value'
        raise Panic(msg)
    return o.payload.f[0]
@M.add(r'^(std::option::)?Option::<.*>::unwrap_unchecked$')
def m_opt_unwrap_unchecked(ex, c, args, m): return args[0].payload.f[0]
@M.add(r'^(std::result::)?Result::<.*>::(unwrap|expect)$')
def m_res_unwrap(ex, c, args, m):
    if args[0].disc != 0: raise Panic('called `Result::unwrap()` on an `Err` value')
    return args[0].payload.f[0]
@M.add(r'^(std::result::)?Result::<.*>::unwrap_err$')
def m_res_unwrap_err(ex, c, args, m):
    if args[0].disc != 1: raise Panic('called `Result::unwrap_err()` on an `Ok` value')
    return args[0].payload.f[0]
@M.add(r'^(std::option::)?Option::<.*>::(is_some|is_none)$')
def m_opt_is(ex, c, args, m):
    o = dd(args[0])
    if z3.is_expr(o.disc): return (o.disc == 1) if m.group(2) == 'is_some' else (o.disc == 0)
    return B((o.disc == 1) == (m.group(2) == 'is_some'))
@M.add(r'^(std::result::)?Result::<.*>::(is_ok|is_err)$')
def m_res_is(ex, c, args, m): return B((dd(args[0]).disc == 0) == (m.group(2) == 'is_ok'))
@M.add(r'^(std::result::)?Result::<.*>::ok$')
def m_res_ok(ex, c, args, m): r = args[0]; return some(r.payload.f[0]) if r.disc == 0 else none()
@M.add(r'^(std::result::)?Result::<.*>::err$')
def m_res_err(ex, c, args, m): r = args[0]; return some(r.payload.f[0]) if r.disc == 1 else none()
@M.add(r'^(std::option::)?Option::<.*>::map::<')
def m_opt_map(ex, c, args, m):
    o = args[0]; return none() if o.disc == 0 else some(call_fn(ex, args[1], [o.payload.f[0]]))
@M.add(r'^(std::option::)?Option::<.*>::and_then::<')
def m_opt_and_then(ex, c, args, m):
    o = args[0]; return none() if o.disc == 0 else call_fn(ex, args[1], [o.payload.f[0]])
@M.add(r'^(std::option::)?Option::<.*>::(filter)::<')
def m_opt_filter(ex, c, args, m):
    o = args[0]
    if o.disc == 0: return none()
    cell = {'x': o.payload.f[0]}
    return o if truth(ex, call_fn(ex, args[1], [Ref(cell, 'x')])) else none()
@M.add(r'^(std::result::)?Result::<.*>::map::<')
def m_res_map(ex, c, args, m):
    r = args[0]; return r if r.disc == 1 else ok(call_fn(ex, args[1], [r.payload.f[0]]))
@M.add(r'^(std::result::)?Result::<.*>::map_err::<')
def m_res_map_err(ex, c, args, m):
    r = args[0]; return r if r.disc == 0 else err(call_fn(ex, args[1], [r.payload.f[0]]))
@M.add(r'^(std::option::)?Option::<.*>::(ok_or|ok_or_else)(::<.*>)?$')
def m_opt_ok_or(ex, c, args, m):
    o = args[0]
    if o.disc == 1: return ok(o.payload.f[0])
    return err(args[1] if m.group(2) == 'ok_or' else call_fn(ex, args[1], []))
# further combinators a changed tree is likely to reach for (kept here so that a check stays decidable instead of answering "no model for ...")
def _disc(ex, o):
    d = o.disc
    return (1 if ex.decide(d == 1) else 0) if z3.is_expr(d) else d
@M.add(r'^(std::option::)?Option::<.*>::(map_or|map_or_else)::<')
def m_opt_map_or(ex, c, args, m):
    o = args[0]
    if _disc(ex, o) == 1: return call_fn(ex, args[2], [o.payload.f[0]])
    return args[1] if m.group(2) == 'map_or' else call_fn(ex, args[1], [])
@M.add(r'^(std::option::)?Option::<.*>::(is_some_and|is_none_or)::<')
def m_opt_is_some_and(ex, c, args, m):
    o = args[0]
    if _disc(ex, o) == 1: return call_fn(ex, args[1], [o.payload.f[0]])
    return B(m.group(2) == 'is_none_or')
@M.add(r'^(std::option::)?Option::<.*>::(or|or_else|and|xor)(::<.*>)?$')
def m_opt_or(ex, c, args, m):
    o = args[0]; op = m.group(2); some_ = _disc(ex, o) == 1
    if op == 'or': return o if some_ else args[1]
    if op == 'or_else': return o if some_ else call_fn(ex, args[1], [])
    if op == 'and': return args[1] if some_ else none()
    b = _disc(ex, args[1]) == 1
    return o if (some_ and not b) else (args[1] if (b and not some_) else none())
@M.add(r'^(std::option::)?Option::<.*>::zip::<')
def m_opt_zip(ex, c, args, m):
    a, b = args[0], args[1]
    return some(tup(a.payload.f[0], b.payload.f[0])) if _disc(ex, a) == 1 and _disc(ex, b) == 1 else none()
@M.add(r'^(std::option::)?Option::<.*>::replace$')
def m_opt_replace(ex, c, args, m):
    r = args[0]; v = r.c[r.k]; r.c[r.k] = some(args[1]); return v
@M.add(r'^(std::option::)?Option::<.*>::inspect::<')
def m_opt_inspect(ex, c, args, m):
    o = args[0]
    if _disc(ex, o) == 1: call_fn(ex, args[1], [Ref(o.payload.f, 0)])
    return o
@M.add(r'^(std::result::)?Result::<.*>::(unwrap_or|unwrap_or_else|unwrap_or_default)(::<.*>)?$')
def m_res_unwrap_or(ex, c, args, m):
    r = args[0]
    if r.disc == 0: return r.payload.f[0]
    if m.group(2) == 'unwrap_or': return args[1]
    if m.group(2) == 'unwrap_or_else': return call_fn(ex, args[1], [r.payload.f[0]])
    raise Unsupported('unwrap_or_default on Err: ' + c)
@M.add(r'^(std::result::)?Result::<.*>::(and_then|or_else)::<')
def m_res_and_then(ex, c, args, m):
    r = args[0]
    if m.group(2) == 'and_then': return call_fn(ex, args[1], [r.payload.f[0]]) if r.disc == 0 else r
    return r if r.disc == 0 else call_fn(ex, args[1], [r.payload.f[0]])
@M.add(r'^(std::result::)?Result::<.*>::(map_or|map_or_else)::<')
def m_res_map_or(ex, c, args, m):
    r = args[0]
    if r.disc == 0: return call_fn(ex, args[2], [r.payload.f[0]])
    return args[1] if m.group(2) == 'map_or' else call_fn(ex, args[1], [r.payload.f[0]])
@M.add(r'^(std::result::)?Result::<.*>::(is_ok_and|is_err_and)::<')
def m_res_is_and(ex, c, args, m):
    r = args[0]; want = 0 if m.group(2) == 'is_ok_and' else 1
    return call_fn(ex, args[1], [r.payload.f[0]]) if r.disc == want else B(False)
@M.add(r'^(std::option::)?Option::<.*>::(cloned|copied)$')
def m_opt_cloned(ex, c, args, m): return some(cp(dd(args[0].payload.f[0]))) if args[0].disc == 1 else none()
@M.add(r'^(std::option::)?Option::<.*>::(as_ref|as_mut|as_deref|as_deref_mut)$')
def m_opt_as_ref(ex, c, args, m):
    r = args[0]; o = r.c[r.k]
    if o.disc == 0: return none()
    inner = o.payload.f[0]
    if 'deref' in m.group(2) and isinstance(inner, BoxRef): return some(Ref(inner.c, inner.k))
    return some(Ref(o.payload.f, 0))
@M.add(r'^(std::option::)?Option::<.*>::unwrap_or_else::<')
def m_opt_unwrap_or_else(ex, c, args, m):
    if args[0].disc == 1: return args[0].payload.f[0]
    return call_fn(ex, args[1], [])
@M.add(r'^(std::option::)?Option::<.*>::unwrap_or$')
def m_opt_unwrap_or(ex, c, args, m): return args[0].payload.f[0] if args[0].disc == 1 else args[1]
@M.add(r'^(std::option::)?Option::<.*>::unwrap_or_default$')
def m_opt_unwrap_or_default(ex, c, args, m):
    if args[0].disc == 1: return args[0].payload.f[0]
    raise Unsupported('unwrap_or_default on None: ' + c)
@M.add(r'^(std::option::)?Option::<.*>::(iter|into_iter)$|^<Option<.*> as IntoIterator>::into_iter$')
def m_opt_iter(ex, c, args, m):
    o = dd(args[0])
    if o.disc == 0: return It([])
    return It([Ref(o.payload.f, 0)]) if isinstance(args[0], Ref) else It([o.payload.f[0]])
@M.add(r'^(std::option::)?Option::<.*>::take$')
def m_opt_take(ex, c, args, m):
    r = args[0]; v = r.c[r.k]; r.c[r.k] = none(); return v
@M.add(r'^(std::option::)?Option::<.*>::insert$|^(std::option::)?Option::<.*>::get_or_insert_with')
def m_opt_insert(ex, c, args, m):
    r = args[0]
    if 'get_or_insert_with' in c:
        if r.c[r.k].disc == 0: r.c[r.k] = some(call_fn(ex, args[1], []))
    else: r.c[r.k] = some(args[1])
    return Ref(r.c[r.k].payload.f, 0)
@M.add(r'^<(std::result::)?Result<.*> as Try>::branch$')
def m_res_branch(ex, c, args, m):
    r = args[0]; return Enum(0, Struct({0: r.payload.f[0]})) if r.disc == 0 else Enum(1, Struct({0: err(r.payload.f[0])}))
@M.add(r'^<(std::result::)?Result<.*> as FromResidual<.*>>::from_residual$')
def m_res_residual(ex, c, args, m): return err(args[0].payload.f[0])
@M.add(r'^<Option<.*> as Try>::branch$')
def m_opt_branch(ex, c, args, m):
    o = args[0]; return Enum(0, Struct({0: o.payload.f[0]})) if o.disc == 1 else Enum(1, Struct({0: none()}))
@M.add(r'^<Option<.*> as FromResidual<.*>>::from_residual$')
def m_opt_residual(ex, c, args, m): return none()

# ------------------------------------------------------------------ closures
@M.add(r'^<\{closure@([^}]*)\} as Fn(Mut|Once)?<.*>>::call(_mut|_once)?$')
def m_closure_call(ex, c, args, m):
    tupv = args[1]; f = args[0]
    try: dd(f)
    except KeyError: f = Struct({}, 'closure@' + m.group(1))      # a capture-less closure is a zero-sized local that MIR never initialises
    return call_fn(ex, f, [tupv.f[i] for i in sorted(tupv.f)])
@M.add(r'^<(impl |dyn |Box<dyn |&dyn |&mut dyn |&impl |[A-Z]\w* as |&[A-Z]\w* as |&mut [A-Z]\w* as |fn\().* as Fn(Mut|Once)?<.*>>::call(_mut|_once)?$|^<.* as Fn(Mut|Once)?<.*>>::call(_mut|_once)?$')
def m_dyn_call(ex, c, args, m):
    f = args[0]
    while isinstance(dd(f), Ref) or isinstance(dd(f), BoxRef): f = dd(f)
    tupv = args[1]; return call_fn(ex, f, [tupv.f[i] for i in sorted(tupv.f)])
@M.add(r'downcast::<')
def m_downcast(ex, c, args, m): return ok(args[0])
@M.add(r'downcast_ref::<')
def m_downcast_ref(ex, c, args, m): return some(args[0])

# ------------------------------------------------------------------ Vec / slices
def _vec(a): return dd(a)
@M.add(r'^Vec::<.*>::push$')
def m_vec_push(ex, c, args, m): _vec(args[0]).items.append(args[1]); return Unit()
@M.add(r'^Vec::<.*>::pop$')
def m_vec_pop(ex, c, args, m): v = _vec(args[0]); return some(v.items.pop()) if v.items else none()
@M.add(r'^Vec::<.*>::(len)$|^SmallVec::<.*>::len$|^VecSet::<.*>::len$|^<VecSet<.*> as .*AbstractVecSet<.*>>::len$|^std::collections::(HashSet|HashMap|BinaryHeap)::<.*>::len$|^BinaryHeap::<.*>::len$')
def m_len(ex, c, args, m): return U64(len(dd(args[0]).items))
@M.add(r'^Vec::<.*>::is_empty$|^SmallVec::<.*>::is_empty$|^VecSet::<.*>::is_empty$|^<VecSet<.*> as .*AbstractVecSet<.*>>::is_empty$|^std::collections::(HashSet|HashMap)::<.*>::is_empty$|^BinaryHeap::<.*>::is_empty$')
def m_is_empty(ex, c, args, m): return B(len(dd(args[0]).items) == 0)
@M.add(r'^Vec::<.*>::clear$|^std::collections::(HashSet|HashMap)::<.*>::clear$')
def m_clear(ex, c, args, m): dd(args[0]).items[:] = []; return Unit()
@M.add(r'^Vec::<.*>::insert$')
def m_vec_insert(ex, c, args, m):
    v = _vec(args[0]); i = conc(args[1])
    if i > len(v.items): raise Panic('insertion index out of bounds')
    v.items.insert(i, args[2]); return Unit()
@M.add(r'^Vec::<.*>::(remove|swap_remove)$')
def m_vec_remove(ex, c, args, m):
    v = _vec(args[0]); i = conc(args[1])
    if i >= len(v.items): raise Panic('removal index out of bounds')
    if m.group(1) == 'remove': return v.items.pop(i)
    x = v.items[i]; v.items[i] = v.items[-1]; v.items.pop(); return x
@M.add(r'^Vec::<.*>::truncate$')
def m_vec_truncate(ex, c, args, m): v = _vec(args[0]); del v.items[conc(args[1]):]; return Unit()
@M.add(r'^Vec::<.*>::(last|first|last_mut|first_mut)$|^core::slice::<impl \[.*\]>::(last|first|last_mut|first_mut)$')
def m_vec_last(ex, c, args, m):
    v = dd(args[0]) if isinstance(args[0], Ref) else args[0]
    op = m.group(1) or m.group(2)
    if isinstance(v, SliceRef):
        if len(v) == 0: return none()
        return some(Ref(v.lst, v.end - 1 if op.startswith('last') else v.start))
    if not v.items: return none()
    return some(Ref(v.items, len(v.items) - 1 if op.startswith('last') else 0))
@M.add(r'^<Vec<.*> as Index(Mut)?<usize>>::index(_mut)?$|^<SmallVec<.*> as Index(Mut)?<usize>>::index(_mut)?$')
def m_vec_index(ex, c, args, m):
    v = _vec(args[0]); i = conc(args[1])
    if i >= len(v.items): raise Panic('index out of bounds: the len is %d but the index is %d' % (len(v.items), i))
    return Ref(v.items, i)
@M.add(r'^<\[.*\] as Index(Mut)?<usize>>::index(_mut)?$')
def m_slice_index(ex, c, args, m):
    sl = args[0]; i = conc(args[1])
    if i >= len(sl): raise Panic('index out of bounds: the len is %d but the index is %d' % (len(sl), i))
    return Ref(sl.lst, sl.start + i)
@M.add(r'^<(Vec<.*>|SmallVec<.*>) as (std::ops::)?Deref(Mut)?>::deref(_mut)?$|^Vec::<.*>::(as_slice|as_mut_slice)$|^<Vec<.*> as (AsRef|Borrow)<\[.*\]>>::')
def m_vec_deref(ex, c, args, m): v = _vec(args[0]); return SliceRef(v.items, 0, len(v.items))
@M.add(r'^<(Vec<.*>|SmallVec<.*>) as IntoIterator>::into_iter$|^SmallVec::<.*>::into_iter$')
def m_vec_into_iter(ex, c, args, m): return It(list(args[0].items))
@M.add(r'^<&(mut )?(Vec<.*>|SmallVec<.*>) as IntoIterator>::into_iter$')
def m_vecref_into_iter(ex, c, args, m): v = dd(args[0]); return It([Ref(v.items, i) for i in range(len(v.items))])
@M.add(r'^<(Vec<.*>|SmallVec<.*>) as Extend<.*>>::extend(::<.*>)?$|^Vec::<.*>::extend_from_slice$|^Vec::<.*>::append$')
def m_vec_extend(ex, c, args, m):
    src = args[1]
    if 'append' in c.rsplit('::', 1)[-1]:
        o = dd(src); xs = list(o.items); o.items[:] = []
    else:
        xs = tolist(ex, src)
        if 'extend_from_slice' in c or (isinstance(src, SliceRef)): xs = [cp(dd(x)) for x in xs]
    _vec(args[0]).items.extend(xs); return Unit()
@M.add(r'^Vec::<.*>::retain::<')
def m_vec_retain(ex, c, args, m):
    v = _vec(args[0]); keep = []
    for i in range(len(v.items)):
        if truth(ex, call_fn(ex, args[1], [Ref(v.items, i)])): keep.append(v.items[i])
    v.items[:] = keep; return Unit()
@M.add(r'^Vec::<.*>::dedup$')
def m_vec_dedup(ex, c, args, m):
    v = _vec(args[0]); out = []
    for x in v.items:
        if out and ex.decide(val_eq(out[-1], x)): continue
        out.append(x)
    v.items[:] = out; return Unit()
@M.add(r'^core::slice::<impl \[.*\]>::(sort|sort_unstable|sort_by_key|sort_unstable_by_key|sort_by)(::<.*>)?$|^slice::<impl \[.*\]>::(sort|sort_by_key|sort_by)(::<.*>)?$')
def m_sort(ex, c, args, m):
    sl = args[0]; items = sl.items(); op = m.group(1) or m.group(3)
    if 'by_key' in op:
        keyed = [(call_fn(ex, args[1], [Ref(sl.lst, sl.start + i)]), x) for i, x in enumerate(items)]
    elif op.endswith('sort_by'): raise Unsupported('sort_by')
    else: keyed = [(x, x) for x in items]
    out = []
    for k, x in keyed:      # stable insertion sort with solver-decided comparisons
        j = len(out)
        while j > 0 and lt(ex, k, out[j-1][0]): j -= 1
        out.insert(j, (k, x))
    for i, (_, x) in enumerate(out): sl.lst[sl.start + i] = x
    return Unit()
@M.add(r'^std::vec::from_elem::<|^vec::from_elem::<')
def m_from_elem(ex, c, args, m): return VecVal([cp(args[0]) for _ in range(conc(args[1]))])
@M.add(r'^core::slice::<impl \[.*\]>::iter$|^Vec::<.*>::iter$')
def m_slice_iter(ex, c, args, m):
    sl = args[0]
    if isinstance(sl, Ref): v = dd(sl); return It([Ref(v.items, i) for i in range(len(v.items))])
    return It([Ref(sl.lst, i) for i in range(sl.start, sl.end)])
@M.add(r'^core::slice::<impl \[.*\]>::iter_mut$|^Vec::<.*>::iter_mut$')
def m_slice_iter_mut(ex, c, args, m): return m_slice_iter(ex, c, args, m)
@M.add(r'^core::slice::<impl \[.*\]>::get(_mut)?::<usize>$')
def m_slice_get(ex, c, args, m):
    sl, i = args[0], conc(args[1]); return some(Ref(sl.lst, sl.start + i)) if i < len(sl) else none()
@M.add(r'^core::slice::<impl \[.*\]>::(is_empty|len)$')
def m_slice_len(ex, c, args, m): return B(len(args[0]) == 0) if m.group(1) == 'is_empty' else U64(len(args[0]))
@M.add(r'^core::slice::<impl \[.*\]>::contains$|^Vec::<.*>::contains$')
def m_slice_contains(ex, c, args, m):
    sl = args[0]; x = dd(args[1])
    xs = sl.items() if isinstance(sl, SliceRef) else dd(sl).items
    for y in xs:
        if ex.decide(val_eq(y, x)): return B(True)
    return B(False)
@M.add(r'^<\[.*\] as Index(Mut)?<(?:std::ops::)?RangeFrom<usize>>>::index(_mut)?$')
def m_slice_from(ex, c, args, m):
    sl, start = args[0], conc(args[1].f[0])
    if start > len(sl): raise Panic('range start index %d out of range for slice of length %d' % (start, len(sl)))
    return SliceRef(sl.lst, sl.start + start, sl.end)
@M.add(r'^<\[.*\] as Index(Mut)?<(?:std::ops::)?RangeTo<usize>>>::index(_mut)?$')
def m_slice_to(ex, c, args, m):
    sl, end = args[0], conc(args[1].f[0])
    if end > len(sl): raise Panic('range end index %d out of range for slice of length %d' % (end, len(sl)))
    return SliceRef(sl.lst, sl.start, sl.start + end)
@M.add(r'^<\[.*\] as Index(Mut)?<(?:std::ops::)?Range<usize>>>::index(_mut)?$')
def m_slice_range(ex, c, args, m):
    sl, a, b = args[0], conc(args[1].f[0]), conc(args[1].f[1])
    if a > b: raise Panic('slice index starts at %d but ends at %d' % (a, b))
    if b > len(sl): raise Panic('range end index %d out of range for slice of length %d' % (b, len(sl)))
    return SliceRef(sl.lst, sl.start + a, sl.start + b)
@M.add(r'^to_vec::<|^core::slice::<impl \[.*\]>::to_vec$|^slice::<impl \[.*\]>::to_vec$|^<\[.*\] as ToOwned>::to_owned$')
def m_to_vec(ex, c, args, m): sl = args[0]; return VecVal([cp(x) for x in sl.items()])
@M.add(r'^core::slice::<impl \[.*\]>::binary_search_by_key::<')
def m_bsearch(ex, c, args, m):
    sl, key, clo = args[0], dd(args[1]), args[2]
    def k_at(i): return call_fn(ex, clo, [Ref(sl.lst, sl.start + i)])
    # core::slice::binary_search_by: size/base halving loop, then one final comparison
    size, base = len(sl), 0
    if size == 0: return err(U64(0))
    while size > 1:
        half = size // 2; mid = base + half
        if not lt(ex, key, k_at(mid)): base = mid       # cmp != Greater
        size -= half
    kb = k_at(base)
    if ex.decide(val_eq(kb, key)): return ok(U64(base))
    return err(U64(base + (1 if lt(ex, kb, key) else 0)))
@M.add(r'^core::slice::<impl \[.*\]>::partition_point::<')
def m_partition_point(ex, c, args, m):
    # std: binary_search_by(|x| if pred(x) { Less } else { Greater }).unwrap_or_else(|i| i) -- same halving loop, no Equal case
    sl, clo = args[0], args[1]
    if isinstance(sl, Ref): sl = dd(sl)
    if isinstance(sl, (VecVal,)): sl = SliceRef(sl.items, 0, len(sl.items))
    def pred(i):
        r = call_fn(ex, clo, [Ref(sl.lst, sl.start + i)])
        return ex.decide(r) if z3.is_expr(r) else bool(r)
    size, base = len(sl), 0
    if size == 0: return U64(0)
    while size > 1:
        half = size // 2; mid = base + half
        if pred(mid): base = mid            # Less: cmp != Greater
        size -= half
    return U64(base + (1 if pred(base) else 0))
@M.add(r'^<\[.*; \d+\] as IntoIterator>::into_iter$|^<\[.*; N\] as IntoIterator>::into_iter$|^<std::array::IntoIter<.*> as IntoIterator>::into_iter$|^core::array::<impl \[.*\]>::into_iter')
def m_arr_into_iter(ex, c, args, m):
    a = args[0]
    if isinstance(a, It): return a
    return It([a.f[i] for i in sorted(a.f)])
@M.add(r'^core::slice::<impl \[.*\]>::join::<|^slice::<impl \[.*\]>::join::<|::join::<&str>$')
def m_join(ex, c, args, m):
    xs = args[0].items() if isinstance(args[0], SliceRef) else dd(args[0]).items
    return PyStr(str(dd(args[1])).join(str(dd(x)) for x in xs))

# ------------------------------------------------------------------ SmallVec
@M.add(r'^SmallVec::<.*>::new$|^<SmallVec<.*> as Default>::default$')
def m_sv_new(ex, c, args, m): return SVec()
@M.add(r'^SmallVec::<\[.*; (\d+)\]>::insert$')
def m_sv_insert(ex, c, args, m):
    v = dd(args[0]); i = conc(args[1])
    if i > len(v.items): raise Panic('insertion index out of bounds')
    if len(v.items) >= int(m.group(1)) and not getattr(ex, 'smallvec_unbounded', False): raise Unsupported('model: SmallVec inline capacity exceeded')
    v.items.insert(i, args[2]); return Unit()
@M.add(r'^SmallVec::<\[.*; (\d+)\]>::push$')
def m_sv_push(ex, c, args, m):
    v = dd(args[0])
    if len(v.items) >= int(m.group(1)) and not getattr(ex, 'smallvec_unbounded', False): raise Unsupported('model: SmallVec inline capacity exceeded')
    v.items.append(args[1]); return Unit()
def _sv_cap(v, n_inline):
    """capacity of a SmallVec that reached its length by successive insertions (smallvec 1.x grows to (len+1).next_power_of_two());
    a vector made by with_capacity carries its capacity"""
    k = len(v.items); c0 = getattr(v, 'cap', None)
    cap = n_inline
    while cap < k: cap = 1 << (cap.bit_length())      # 10 -> 16 -> 32 -> 64
    return max(cap, c0 or 0)
@M.add(r'^SmallVec::<\[.*; (\d+)\]>::(capacity|spilled)$')
def m_sv_cap(ex, c, args, m):
    v = dd(args[0]); cap = _sv_cap(v, int(m.group(1)))
    return U64(cap) if m.group(2) == 'capacity' else B(cap > int(m.group(1)))
@M.add(r'^SmallVec::<\[.*; (\d+)\]>::with_capacity$')
def m_sv_with_capacity(ex, c, args, m):
    v = SVec()
    try: v.cap = conc(args[0])
    except AttributeError: pass
    return v
@M.add(r'^SmallVec::<\[.*; (\d+)\]>::extend_from_slice$')
def m_sv_extend_from_slice(ex, c, args, m):
    if not getattr(ex, 'smallvec_unbounded', False): raise Unsupported('model: SmallVec extend_from_slice outside the unbounded-sequence mode')
    v = dd(args[0]); v.items.extend(cp(dd(x)) for x in tolist(ex, args[1])); return Unit()
@M.add(r'^SmallVec::<.*>::remove$')
def m_sv_remove(ex, c, args, m):
    v = dd(args[0]); i = conc(args[1])
    if i >= len(v.items): raise Panic('removal index out of bounds')
    return v.items.pop(i)

# ------------------------------------------------------------------ HashMap / VecMap
@M.add(r'^(?:std::collections::)?HashMap::<.*>::(get|get_mut|contains_key|insert|remove)(::<.*>)?$|^VecMap::<.*>::(get|get_mut|contains_key|insert|remove)(::<.*>)?$|^<VecMap<.*> as .*AbstractVecMap<.*>>::(get|contains_key)(::<.*>)?$')
def m_hm_ops(ex, c, args, m):
    op = m.group(1) or m.group(3) or m.group(5); mp = dd(args[0]); k = args[1] if op == 'insert' else dd(args[1]); it = hm_find(ex, mp, k)
    if op in ('get', 'get_mut'): return some(Ref(it, 1)) if it else none()
    if op == 'contains_key': return B(it is not None)
    if op == 'insert':
        if it: old = it[1]; it[1] = args[2]; return some(old)
        mp.items.append([k, args[2]]); return none()
    if it: mp.items.remove(it); return some(it[1])
    return none()
@M.add(r'^<std::collections::HashMap<.*> as Index<&.*>>::index$')
def m_hm_index(ex, c, args, m):
    it = hm_find(ex, dd(args[0]), dd(args[1]))
    if not it: raise Panic('HashMap index: key not found')
    return Ref(it, 1)
@M.add(r'^std::collections::HashMap::<.*>::(keys|values|values_mut|iter|iter_mut|into_keys|into_values|drain)$|^VecMap::<.*>::(iter)$')
def m_hm_iters(ex, c, args, m):
    mp = dd(args[0]); op = m.group(1) or m.group(2); items = hash_order(ex, mp.items)
    if op == 'keys': return It([Ref(it, 0) for it in items])
    if op in ('values', 'values_mut'): return It([Ref(it, 1) for it in items])
    if op == 'into_keys': return It([it[0] for it in items])
    if op == 'into_values': return It([it[1] for it in items])
    if op == 'drain': mp.items = []; return It([tup(it[0], it[1]) for it in items])
    return It([tup(Ref(it, 0), Ref(it, 1)) for it in items])
@M.add(r'^<std::collections::HashMap<.*> as IntoIterator>::into_iter$')
def m_hm_into_iter(ex, c, args, m): return It([tup(k, v) for k, v in hash_order(ex, args[0].items)])
@M.add(r'^<&(mut )?std::collections::HashMap<.*> as IntoIterator>::into_iter$')
def m_hmref_into_iter(ex, c, args, m): return It([tup(Ref(it, 0), Ref(it, 1)) for it in hash_order(ex, dd(args[0]).items)])
@M.add(r'^std::collections::HashMap::<.*>::entry$')
def m_hm_entry(ex, c, args, m): return Struct({'m': dd(args[0]), 'k': args[1]}, 'Entry')
@M.add(r'^std::collections::hash_map::Entry::<.*>::(or_insert|or_default|or_insert_with)(::<.*>)?$')
def m_entry_or(ex, c, args, m):
    en = args[0]; it = hm_find(ex, en.f['m'], en.f['k'])
    if it is None:
        if m.group(1) == 'or_insert': v = args[1]
        elif m.group(1) == 'or_insert_with': v = call_fn(ex, args[1], [])
        else:
            if 'HashSet<' in c.split('Entry::<', 1)[1].split(',', 1)[1][:40] or re.search(r'Entry::<[^,]*, (std::collections::)?HashSet<', c): v = HS()
            elif re.search(r'Entry::<[^,]*, Vec<', c): v = VecVal([])
            elif re.search(r'Entry::<[^,]*, (usize|u64)>', c): v = U64(0)
            else: raise Unsupported('or_default for ' + c)
        it = [en.f['k'], v]; en.f['m'].items.append(it)
    return Ref(it, 1)
@M.add(r'^std::collections::HashMap::<.*>::retain::<')
def m_hm_retain(ex, c, args, m):
    mp = dd(args[0]); keep = []
    for it in mp.items:
        if truth(ex, call_fn(ex, args[1], [Ref(it, 0), Ref(it, 1)])): keep.append(it)
    mp.items[:] = keep; return Unit()
@M.add(r'^<std::collections::HashMap<.*> as Extend<.*>>::extend')
def m_hm_extend(ex, c, args, m):
    mp = dd(args[0])
    for t in tolist(ex, args[1]):
        it = hm_find(ex, mp, t.f[0])
        if it: it[1] = t.f[1]
        else: mp.items.append([t.f[0], t.f[1]])
    return Unit()

# ------------------------------------------------------------------ HashSet
@M.add(r'^std::collections::HashSet::<.*>::(insert|contains|remove)(::<.*>)?$')
def m_hs_ops(ex, c, args, m):
    op = m.group(1); st = dd(args[0]); k = args[1] if op == 'insert' else dd(args[1])
    hit = None
    for i, x in enumerate(st.items):
        if ex.decide(val_eq(x, k)): hit = i; break
    if op == 'contains': return B(hit is not None)
    if op == 'insert':
        if hit is not None: return B(False)
        st.items.append(k); return B(True)
    if hit is not None: st.items.pop(hit)
    return B(hit is not None)
@M.add(r'^std::collections::HashSet::<.*>::(iter|drain)$')
def m_hs_iter(ex, c, args, m):
    st = dd(args[0])
    if m.group(1) == 'drain':
        xs = hash_order(ex, st.items); st.items[:] = []; return It(xs)
    idx = hash_order(ex, list(range(len(st.items)))); return It([Ref(st.items, i) for i in idx])
@M.add(r'^<std::collections::HashSet<.*> as IntoIterator>::into_iter$')
def m_hs_into_iter(ex, c, args, m): return It(hash_order(ex, args[0].items))
@M.add(r'^<&std::collections::HashSet<.*> as IntoIterator>::into_iter$')
def m_hsref_into_iter(ex, c, args, m):
    st = dd(args[0]); idx = hash_order(ex, list(range(len(st.items)))); return It([Ref(st.items, i) for i in idx])
@M.add(r'^std::collections::HashSet::<.*>::retain::<')
def m_hs_retain(ex, c, args, m):
    st = dd(args[0]); keep = []
    for i in range(len(st.items)):
        if truth(ex, call_fn(ex, args[1], [Ref(st.items, i)])): keep.append(st.items[i])
    st.items[:] = keep; return Unit()
@M.add(r'^<&std::collections::HashSet<.*> as (BitOr|Sub|BitAnd)(<.*>)?>::(bitor|sub|bitand)$')
def m_hs_setop(ex, c, args, m):
    a, b = dd(args[0]), dd(args[1]); op = m.group(3)
    if op == 'bitor':
        out = HS([cp(x) for x in a.items])
        for x in b.items:
            if not hs_has(ex, out, x): out.items.append(cp(x))
        return out
    if op == 'sub': return HS([cp(x) for x in a.items if not hs_has(ex, b, x)])
    return HS([cp(x) for x in a.items if hs_has(ex, b, x)])
@M.add(r'^std::collections::HashSet::<.*>::(is_disjoint|is_subset|is_superset)$')
def m_hs_rel(ex, c, args, m):
    a, b = dd(args[0]), dd(args[1]); op = m.group(1)
    if op == 'is_disjoint': return B(not any(hs_has(ex, b, x) for x in a.items))
    if op == 'is_subset': return B(all(hs_has(ex, b, x) for x in a.items))
    return B(all(hs_has(ex, a, x) for x in b.items))
@M.add(r'^std::collections::HashSet::<.*>::(union|intersection|difference)$')
def m_hs_union(ex, c, args, m):
    a, b = dd(args[0]), dd(args[1]); op = m.group(1)
    if op == 'union': return It([Ref(a.items, i) for i in range(len(a.items))] + [Ref(b.items, i) for i in range(len(b.items)) if not hs_has(ex, a, b.items[i])])
    if op == 'intersection': return It([Ref(a.items, i) for i in range(len(a.items)) if hs_has(ex, b, a.items[i])])
    return It([Ref(a.items, i) for i in range(len(a.items)) if not hs_has(ex, b, a.items[i])])
@M.add(r'^<std::collections::HashSet<.*> as Extend<.*>>::extend')
def m_hs_extend(ex, c, args, m):
    st = dd(args[0])
    for x in tolist(ex, args[1]):
        x = cp(dd(x)) if isinstance(x, Ref) else x
        if not hs_has(ex, st, x): st.items.append(x)
    return Unit()

# ------------------------------------------------------------------ VecSet
@M.add(r'^VecSet::<.*>::empty$|^<VecSet<.*> as Default>::default$|^VecSet::<.*>::new$')
def m_vs_empty(ex, c, args, m): return VS()
@M.add(r'^VecSet::<.*>::insert$')
def m_vs_insert(ex, c, args, m): return B(vs_insert(ex, dd(args[0]), args[1]))
@M.add(r'^VecSet::<.*>::remove$')
def m_vs_remove(ex, c, args, m):
    vs = dd(args[0]); x = dd(args[1])
    for i, y in enumerate(vs.items):
        if ex.decide(val_eq(y, x)): vs.items.pop(i); return B(True)
    return B(False)
@M.add(r'^VecSet::<.*>::iter$|^<VecSet<.*> as .*AbstractVecSet<.*>>::iter$|^<&VecSet<.*> as IntoIterator>::into_iter$')
def m_vs_iter(ex, c, args, m): v = dd(args[0]); return It([Ref(v.items, i) for i in range(len(v.items))])
@M.add(r'^<VecSet<.*> as IntoIterator>::into_iter$')
def m_vs_into_iter(ex, c, args, m): return It(list(args[0].items))
@M.add(r'VecSet.*>::(contains|is_subset|is_superset|is_disjoint)(::<.*>)?$')
def m_vs_rel(ex, c, args, m):
    op = m.group(1); a = dd(args[0]); b = dd(args[1])
    if op == 'contains': return B(vs_has(ex, a, b))
    if op == 'is_subset': return B(all(vs_has(ex, b, x) for x in a.items))
    if op == 'is_superset': return B(all(vs_has(ex, a, x) for x in b.items))
    return B(not any(vs_has(ex, b, x) for x in a.items))
@M.add(r'^<&VecSet<.*> as (BitAnd|Sub|BitOr)(?:<.*>)?>::(bitand|sub|bitor)$')
def m_vs_setop(ex, c, args, m):
    a, b = dd(args[0]), dd(args[1]); op = m.group(2)
    if op == 'bitand': return VS([cp(x) for x in a.items if vs_has(ex, b, x)])
    if op == 'sub': return VS([cp(x) for x in a.items if not vs_has(ex, b, x)])
    out = VS([cp(x) for x in a.items])
    for x in b.items: vs_insert(ex, out, cp(x))
    return out

# ------------------------------------------------------------------ iterators
@M.add(r'^(std::iter::)?empty::<')
def m_iter_empty(ex, c, args, m): return It([])
@M.add(r'^(std::iter::)?once::<')
def m_iter_once(ex, c, args, m): return It([args[0]])
@M.add(r'^(std::iter::)?from_fn::<')
def m_from_fn(ex, c, args, m):
    clo = args[0]; env = Ref({'e': clo}, 'e')
    def g():
        n = 0
        while True:
            r = call_fn(ex, env, [])
            if r.disc == 0: return
            yield r.payload.f[0]
            n += 1
            if n > 4096: raise Unsupported('from_fn model: more than 4096 items')
    return It(g())
@M.add(r'^(std::iter::)?repeat::<')
def m_repeat(ex, c, args, m):
    return It(itertools.repeat(args[0]))
@M.add(r' as IntoIterator>::into_iter$')
def m_into_iter_ident(ex, c, args, m):
    a = args[0]
    if isinstance(a, It): return a
    if isinstance(a, Struct) and a.tag and 'Range' in a.tag: return It(tolist(ex, a))
    if isinstance(a, SliceRef): return It([Ref(a.lst, i) for i in range(a.start, a.end)])
    if isinstance(a, Ref):
        v = dd(a)
        if isinstance(v, (VecVal,)): return It([Ref(v.items, i) for i in range(len(v.items))])
    if isinstance(a, VecVal): return It(list(a.items))
    if isinstance(a, Enum): return It([a.payload.f[0]] if a.disc == 1 else [])
    raise Unsupported('into_iter of ' + type(a).__name__ + ' : ' + c)
@M.add(r' as Iterator>::next$')
def m_next(ex, c, args, m):
    it = dd(args[0])
    if isinstance(it, It): return it.nxt()
    if isinstance(it, Struct) and it.tag and 'Range' in it.tag:
        a, b = conc(it.f[0]), conc(it.f[1])
        if a >= b: return none()
        it.f[0] = z3.BitVecVal(a + 1, it.f[0].size()); return some(z3.BitVecVal(a, it.f[0].size()))
    raise Unsupported('next on ' + type(it).__name__)
@M.add(r' as DoubleEndedIterator>::next_back$')
def m_next_back(ex, c, args, m):
    r = args[0]; xs = tolist(ex, dd(r))
    if not xs: r.c[r.k] = It([]); return none()
    r.c[r.k] = It(xs[:-1]); return some(xs[-1])
@M.add(r' as Iterator>::map::<')
def m_map(ex, c, args, m):
    src = as_it(ex, args[0]); f = args[1]
    if isinstance(f, Opaque) and f.what[0] == 'fnitem':
        path = f.what[1]; last = strip_turbofish(path).rsplit('::', 1)[-1]
        e = ex._enum_variant(path)
        if e is not None: return It(Enum(e[0], Struct({0: x}), e[1]) for x in src)
        if last[:1].isupper(): return It(Struct({0: x}, last) for x in src)
    return It(call_fn(ex, f, [x]) for x in src)
@M.add(r' as Iterator>::filter::<')
def m_filter(ex, c, args, m):
    src = as_it(ex, args[0]); f = args[1]
    def g():
        for x in src:
            cell = {'x': x}
            if truth(ex, call_fn(ex, f, [Ref(cell, 'x')])): yield x
    return It(g())
@M.add(r' as Iterator>::filter_map::<')
def m_filter_map(ex, c, args, m):
    src = as_it(ex, args[0]); f = args[1]
    def g():
        for x in src:
            r = call_fn(ex, f, [x], c)
            if r.disc == 1: yield r.payload.f[0]
    return It(g())
@M.add(r' as Iterator>::flat_map::<')
def m_flat_map(ex, c, args, m):
    src = as_it(ex, args[0]); f = args[1]
    def g():
        for x in src:
            for y in as_it(ex, call_fn(ex, f, [x])): yield y
    return It(g())
@M.add(r' as Iterator>::flatten$')
def m_flatten(ex, c, args, m):
    src = as_it(ex, args[0])
    def g():
        for x in src:
            for y in as_it(ex, x): yield y
    return It(g())
@M.add(r' as Iterator>::chain::<')
def m_chain(ex, c, args, m): return It(itertools.chain(as_it(ex, args[0]), as_it(ex, args[1])))
@M.add(r' as Iterator>::zip::<')
def m_zip(ex, c, args, m): return It(tup(x, y) for x, y in zip(as_it(ex, args[0]), as_it(ex, args[1])))
@M.add(r' as Iterator>::enumerate$')
def m_enumerate(ex, c, args, m): return It(tup(U64(i), x) for i, x in enumerate(as_it(ex, args[0])))
@M.add(r' as Iterator>::(copied|cloned)(::<.*>)?$')
def m_copied(ex, c, args, m): return It(cp(r.c[r.k]) if isinstance(r, Ref) else cp(r) for r in as_it(ex, args[0]))      # one level: copied() on &&T yields &T
@M.add(r' as Iterator>::rev$')
def m_rev(ex, c, args, m): return It(list(reversed(tolist(ex, args[0]))))
@M.add(r' as Iterator>::(skip|take)$')
def m_skip(ex, c, args, m):
    n = conc(args[1]); src = as_it(ex, args[0])
    return It(itertools.islice(src, n, None)) if m.group(1) == 'skip' else It(itertools.islice(src, n))
@M.add(r' as Iterator>::(take_while|skip_while)::<')
def m_take_while(ex, c, args, m):
    src = as_it(ex, args[0]); f = args[1]; tw = m.group(1) == 'take_while'
    def g():
        dropping = not tw
        for x in src:
            cell = {'x': x}
            r = truth(ex, call_fn(ex, f, [Ref(cell, 'x')]))
            if tw:
                if not r: return
                yield x
            else:
                if dropping and r: continue
                dropping = False; yield x
    return It(g())
@M.add(r' as Iterator>::peekable$|^<.* as Iterator>::by_ref$|^<.* as Iterator>::fuse$')
def m_iter_ident(ex, c, args, m): return args[0]
@M.add(r' as Iterator>::(all|any)::<')
def m_all_any(ex, c, args, m):
    is_all = m.group(1) == 'all'
    for x in as_it(ex, dd(args[0]) if isinstance(args[0], Ref) else args[0]):
        r = truth(ex, call_fn(ex, args[1], [x]))
        if is_all and not r: return B(False)
        if not is_all and r: return B(True)
    return B(is_all)
@M.add(r' as Iterator>::find::<')
def m_find(ex, c, args, m):
    for x in as_it(ex, dd(args[0]) if isinstance(args[0], Ref) else args[0]):
        cell = {'x': x}
        if truth(ex, call_fn(ex, args[1], [Ref(cell, 'x')])): return some(x)
    return none()
@M.add(r' as Iterator>::find_map::<')
def m_find_map(ex, c, args, m):
    for x in as_it(ex, dd(args[0]) if isinstance(args[0], Ref) else args[0]):
        r = call_fn(ex, args[1], [x])
        if r.disc == 1: return r
    return none()
@M.add(r' as Iterator>::position::<')
def m_position(ex, c, args, m):
    for i, x in enumerate(as_it(ex, dd(args[0]) if isinstance(args[0], Ref) else args[0])):
        if truth(ex, call_fn(ex, args[1], [x])): return some(U64(i))
    return none()
@M.add(r' as Iterator>::(min|max)$')
def m_min(ex, c, args, m):
    xs = tolist(ex, args[0])
    if not xs: return none()
    best = xs[0]
    for y in xs[1:]:
        if m.group(1) == 'min':
            if lt(ex, y, best): best = y
        else:
            if not lt(ex, y, best): best = y
    return some(best)
@M.add(r' as Iterator>::(min_by_key|max_by_key)::<')
def m_min_by_key(ex, c, args, m):
    xs = tolist(ex, args[0])
    if not xs: return none()
    def key(x): cell = {'x': x}; return call_fn(ex, args[1], [Ref(cell, 'x')])
    best, bk = xs[0], key(xs[0])
    for y in xs[1:]:
        k = key(y)
        if m.group(1) == 'min_by_key':
            if lt(ex, k, bk): best, bk = y, k
        else:
            if not lt(ex, k, bk): best, bk = y, k
    return some(best)
@M.add(r' as Iterator>::sum::<(usize|u64|u32)>$')
def m_sum(ex, c, args, m):
    w = 32 if m.group(1) == 'u32' else 64; tot = z3.BitVecVal(0, w)
    for x in as_it(ex, args[0]): tot = tot + dd(x)
    return z3.simplify(tot)
@M.add(r' as Iterator>::count$')
def m_count(ex, c, args, m): return U64(len(tolist(ex, args[0])))
@M.add(r' as Iterator>::last$')
def m_last(ex, c, args, m):
    xs = tolist(ex, args[0]); return some(xs[-1]) if xs else none()
@M.add(r' as Iterator>::nth$')
def m_nth(ex, c, args, m):
    it = as_it(ex, dd(args[0])); n = conc(args[1])
    for i, x in enumerate(it):
        if i == n: return some(x)
    return none()
@M.add(r' as Iterator>::for_each::<')
def m_for_each(ex, c, args, m):
    for x in as_it(ex, args[0]): call_fn(ex, args[1], [x])
    return Unit()
@M.add(r' as Iterator>::fold::<')
def m_fold(ex, c, args, m):
    acc = args[1]
    for x in as_it(ex, args[0]): acc = call_fn(ex, args[2], [acc, x])
    return acc
@M.add(r' as Iterator>::collect::<(.*)>$')
def m_collect(ex, c, args, m):
    tgt = m.group(1); xs = tolist(ex, args[0])
    if re.match(r'^(std::vec::)?Vec<', tgt): return VecVal(xs)
    if re.match(r'^(std::collections::)?HashMap<', tgt):
        out = HM()
        for t in xs:
            it = hm_find(ex, out, t.f[0])
            if it: it[1] = t.f[1]
            else: out.items.append([t.f[0], t.f[1]])
        return out
    if re.match(r'^(std::collections::)?HashSet<', tgt):
        out = HS()
        for x in xs:
            if not hs_has(ex, out, x): out.items.append(x)
        return out
    if re.match(r'^(vec_collections::)?(vec_set::)?VecSet<', tgt): return vs_from(ex, xs)
    if re.match(r'^(slotmap::)?SlotMap$', tgt): return ex.call(ex.resolver.M('<SlotMap as FromIterator>::from_iter'), [It(xs)])
    if re.match(r'^SmallVec<', tgt): return SVec(xs)
    if tgt == 'String': return PyStr(''.join(str(dd(x)) for x in xs))
    if re.match(r'^(std::option::)?Option<Vec<', tgt):
        out = []
        for x in xs:
            if x.disc == 0: return none()
            out.append(x.payload.f[0])
        return some(VecVal(out))
    if re.match(r'^(std::result::)?Result<Vec<', tgt):
        out = []
        for x in xs:
            if x.disc == 1: return x
            out.append(x.payload.f[0])
        return ok(VecVal(out))
    if re.match(r'^Box<\[', tgt): return boxed(VecVal(xs))
    raise Unsupported('collect into ' + tgt)
@M.add(r'^<(?:std::ops::)?Range<usize> as Iterator>::(map|rev)')
def m_range_unreached(ex, c, args, m): raise Unsupported(c)

# ------------------------------------------------------------------ strings (concrete)
def S(x): return dd(x)
@M.add(r'^<String as From<&str>>::from$|^<str as ToString>::to_string$|^<String as ToString>::to_string$|^<String as (std::ops::)?Deref>::deref$|^String::as_str$|^<str as ToOwned>::to_owned$|^<String as (AsRef|Borrow)<str>>::|^<&str as ToString>::to_string$|^core::str::<impl str>::to_string$|^str::<impl str>::to_owned$|^alloc::str::<impl str>::to_owned$|^String::from_str$|^<String as FromStr>::from_str$|^String::into_boxed_str$')
def m_str_ident(ex, c, args, m):
    v = S(args[0])
    if not isinstance(v, str): raise Unsupported('string model on ' + type(v).__name__ + ' in ' + c)
    return PyStr(v)
@M.add(r'^core::str::<impl str>::(trim_start|trim_end|trim|is_empty|len|to_lowercase|to_uppercase|chars|char_indices|bytes|as_bytes)$|^String::(len|is_empty)$')
def m_str_ops(ex, c, args, m):
    op = m.group(1) or m.group(2); s = str(S(args[0]))
    if op == 'trim_start': return PyStr(s.lstrip())
    if op == 'trim_end': return PyStr(s.rstrip())
    if op == 'trim': return PyStr(s.strip())
    if op == 'is_empty': return B(len(s) == 0)
    if op == 'len': return U64(len(s.encode()))
    if op == 'chars': return It([PyStr(ch) for ch in s])
    if op == 'char_indices':
        out, off = [], 0
        for ch in s: out.append(tup(U64(off), PyStr(ch))); off += len(ch.encode())
        return It(out)
    raise Unsupported('str op ' + op)
@M.add(r'^core::str::<impl str>::(starts_with|ends_with|contains)::<(.*)>$')
def m_str_pred(ex, c, args, m):
    s = str(S(args[0])); p = S(args[1])
    if not isinstance(p, str): raise Unsupported('str pattern ' + type(p).__name__)
    p = str(p)
    return B({'starts_with': s.startswith(p), 'ends_with': s.endswith(p), 'contains': p in s}[m.group(1)])
@M.add(r'^core::str::<impl str>::(split_whitespace|split|lines)')
def m_str_split(ex, c, args, m):
    s = str(S(args[0]))
    if m.group(1) == 'split_whitespace': return It([PyStr(x) for x in s.split()])
    if m.group(1) == 'lines': return It([PyStr(x) for x in s.splitlines()])
    return It([PyStr(x) for x in s.split(str(S(args[1])))])
def _byte_slice(s, a, b):
    bs = s.encode()
    for i in (a, b):
        if i is not None and i > len(bs): raise Panic('byte index %d is out of bounds of string' % i)
        if i is not None and i < len(bs) and (bs[i] & 0xC0) == 0x80: raise Panic('byte index %d is not a char boundary' % i)
    return PyStr(bs[a:b].decode())
@M.add(r'^<str as Index<(?:std::ops::)?RangeFrom<usize>>>::index$|^<String as Index<(?:std::ops::)?RangeFrom<usize>>>::index$')
def m_str_from(ex, c, args, m): return _byte_slice(str(S(args[0])), conc(args[1].f[0]), None)
@M.add(r'^<str as Index<(?:std::ops::)?RangeTo<usize>>>::index$|^<String as Index<(?:std::ops::)?RangeTo<usize>>>::index$')
def m_str_to(ex, c, args, m): return _byte_slice(str(S(args[0])), None, conc(args[1].f[0]))
@M.add(r'^<str as Index<(?:std::ops::)?Range<usize>>>::index$|^<String as Index<(?:std::ops::)?Range<usize>>>::index$')
def m_str_range(ex, c, args, m): return _byte_slice(str(S(args[0])), conc(args[1].f[0]), conc(args[1].f[1]))
@M.add(r'^char::methods::<impl char>::(is_whitespace|is_alphanumeric|is_alphabetic|is_numeric|is_ascii_digit|is_ascii_alphanumeric)$')
def m_char_pred(ex, c, args, m):
    ch = str(S(args[0])); op = m.group(1)
    return B({'is_whitespace': ch.isspace(), 'is_alphanumeric': ch.isalnum(), 'is_alphabetic': ch.isalpha(), 'is_numeric': ch.isnumeric(),
              'is_ascii_digit': ch in '0123456789', 'is_ascii_alphanumeric': ch.isascii() and ch.isalnum()}[op])
@M.add(r'^core::str::<impl str>::parse::<(u32|usize|u64)>$')
def m_str_parse(ex, c, args, m):
    t = str(S(args[0])); w = 32 if m.group(1) == 'u32' else 64
    return ok(z3.BitVecVal(int(t), w)) if re.fullmatch(r'\+?\d+', t) and int(t) < 2**w else err(Opaque('ParseIntError'))
@M.add(r'^String::push_str$|^String::push$')
def m_str_push(ex, c, args, m):
    r = args[0]; r.c[r.k] = PyStr(str(r.c[r.k]) + str(S(args[1]))); return Unit()
@M.add(r'^<String as (?:std::ops::)?Add<&str>>::add$')
def m_str_add(ex, c, args, m): return PyStr(str(args[0]) + str(S(args[1])))
@M.add(r'^<(slot::)?Slot as ToString>::to_string$|^<(usize|u32|u64|types::Id|Id) as ToString>::to_string$')
def m_to_string(ex, c, args, m): return PyStr('<to_string>')

# ------------------------------------------------------------------ BinaryHeap (ordering by the crate's own Ord, run from MIR)
@M.add(r'^(std::collections::)?BinaryHeap::<.*>::new$|^<(std::collections::)?BinaryHeap<.*> as Default>::default$')
def m_heap_new(ex, c, args, m): return VecVal([])
@M.add(r'^(std::collections::)?BinaryHeap::<.*>::push$')
def m_heap_push(ex, c, args, m): dd(args[0]).items.append(args[1]); return Unit()
@M.add(r'^(std::collections::)?BinaryHeap::<(.*)>::pop$')
def m_heap_pop(ex, c, args, m):
    h = dd(args[0])
    if not h.items: return none()
    best = 0
    for i in range(1, len(h.items)):
        cell = {'a': h.items[i], 'b': h.items[best]}
        o = ex.call_callee('<' + m.group(2) + ' as Ord>::cmp', [Ref(cell, 'a'), Ref(cell, 'b')])
        d = o.disc if z3.is_expr(o.disc) else None
        gt = ex.decide(d == z3.BitVecVal(1, d.size())) if d is not None else (o.disc == 1)
        if gt: best = i
    return some(h.items.pop(best))

# ------------------------------------------------------------------ time (nondeterministic environment)
@M.add(r'^(std::time::)?Instant::now$')
def m_now(ex, c, args, m):
    n = getattr(ex, '_clock_n', 0); ex._clock_n = n + 1
    return Struct({0: z3.BitVec('clock_%d' % n, 64)}, 'Instant')
@M.add(r'^(std::time::)?Instant::elapsed$')
def m_elapsed(ex, c, args, m):
    n = getattr(ex, '_clock_n', 0); ex._clock_n = n + 1
    return Struct({0: z3.BitVec('elapsed_%d' % n, 64)}, 'Duration')

# ------------------------------------------------------------------ constants
M.consts[r'^(std::iter::|core::iter::)?Empty::<'] = lambda ex, body: It([])

@M.add(r'^(std::ops::)?RangeInclusive::<.*>::new$')
def m_range_incl(ex, c, args, m): return Struct({0: args[0], 1: args[1] + 1}, 'Range(inclusive)')

@M.add(r'^<(usize|u32|u64) as Ord>::(min|max)$')
def m_int_minmax(ex, c, args, m):
    a, b = args
    return z3.If(z3.ULE(a, b), a, b) if m.group(2) == 'min' else z3.If(z3.UGE(a, b), a, b)

@M.add(r'^core::slice::<impl \[.*\]>::(split_at|split_at_mut)$')
def m_split_at(ex, c, args, m):
    sl = args[0]
    if isinstance(sl, Ref): v = dd(sl); sl = SliceRef(v.items, 0, len(v.items))
    i = conc(args[1])
    if i > len(sl): raise Panic('mid > len')
    return tup(SliceRef(sl.lst, sl.start, sl.start + i), SliceRef(sl.lst, sl.start + i, sl.end))
@M.add(r'^core::slice::<impl \[.*\]>::(split_first|split_last)$')
def m_split_first(ex, c, args, m):
    sl = args[0]
    if len(sl) == 0: return none()
    if m.group(1) == 'split_first': return some(tup(Ref(sl.lst, sl.start), SliceRef(sl.lst, sl.start + 1, sl.end)))
    return some(tup(Ref(sl.lst, sl.end - 1), SliceRef(sl.lst, sl.start, sl.end - 1)))

@M.add(r'^core::slice::<impl \[.*\]>::windows$')
def m_windows(ex, c, args, m):
    sl = args[0]; n = conc(args[1])
    if n == 0: raise Panic('window size must be non-zero')
    return It([SliceRef(sl.lst, sl.start + i, sl.start + i + n) for i in range(len(sl) - n + 1)])
@M.add(r'^core::slice::<impl \[.*\]>::chunks$')
def m_chunks(ex, c, args, m):
    sl = args[0]; n = conc(args[1])
    return It([SliceRef(sl.lst, sl.start + i, min(sl.start + i + n, sl.end)) for i in range(0, len(sl), n)])

# ------------------------------------------------------------------ sets of raw pointers: identity, not value
def _ptr_same(a, b):
    return isinstance(a, Ref) and isinstance(b, Ref) and a.c is b.c and a.k == b.k
@M.add(r'^std::collections::HashSet::<\*(const|mut) .*>::(insert|contains)(::<.*>)?$', front=True)
def m_ptrset_ops(ex, c, args, m):
    st = dd(args[0]); k = args[1] if m.group(2) == 'insert' else deref(args[1])
    hit = any(_ptr_same(x, k) for x in st.items)
    if m.group(2) == 'contains': return B(hit)
    if not hit: st.items.append(k)
    return B(not hit)
@M.add(r' as Iterator>::collect::<(std::collections::)?HashSet<\*(const|mut) .*>>$', front=True)
def m_ptrset_collect(ex, c, args, m):
    out = HS()
    for x in tolist(ex, args[0]):
        if not any(_ptr_same(x, y) for y in out.items): out.items.append(x)
    return out
@M.add(r'^std::collections::HashSet::<\*(const|mut) .*>::(is_disjoint|is_subset)$', front=True)
def m_ptrset_rel(ex, c, args, m):
    a, b = dd(args[0]), dd(args[1])
    if m.group(2) == 'is_disjoint': return B(not any(_ptr_same(x, y) for x in a.items for y in b.items))
    return B(all(any(_ptr_same(x, y) for y in b.items) for x in a.items))
@M.add(r'^std::collections::HashSet::<\*(const|mut) .*>::union$', front=True)
def m_ptrset_union(ex, c, args, m):
    a, b = dd(args[0]), dd(args[1])
    return It([Ref({'p': x}, 'p') for x in list(a.items) + [y for y in b.items if not any(_ptr_same(x, y) for x in a.items)]])
@M.add(r'^<std::collections::HashSet<\*(const|mut) .*> as PartialEq>::(eq|ne)$', front=True, first=True)
def m_ptrset_eq(ex, c, args, m):
    a, b = dd(args[0]), dd(args[1])
    e = len(a.items) == len(b.items) and all(any(_ptr_same(x, y) for y in b.items) for x in a.items)
    return B(e if m.group(2) == 'eq' else not e)
M.consts[r'^(std::iter::|core::iter::)?(Copied|Cloned)::<.*Empty::<'] = lambda ex, body: It([])

@M.add(r'^<(Vec<.*>|SmallVec<.*>) as Index<(?:std::ops::)?(RangeFrom|RangeTo|Range|RangeFull)(<usize>)?>>::index$')
def m_vec_range_index(ex, c, args, m):
    v = dd(args[0]); n = len(v.items); kind = m.group(2); r = args[1]
    a, b = 0, n
    if kind == 'RangeFrom': a = conc(r.f[0])
    elif kind == 'RangeTo': b = conc(r.f[0])
    elif kind == 'Range': a, b = conc(r.f[0]), conc(r.f[1])
    if a > b: raise Panic('slice index starts at %d but ends at %d' % (a, b))
    if b > n: raise Panic('range end index %d out of range for slice of length %d' % (b, n))
    return SliceRef(v.items, a, b)

@M.add(r'^(std::iter::|core::iter::)?Peekable::<.*>::peek$')
def m_peekable_peek(ex, c, args, m):
    import itertools
    it = dd(args[0])
    if not isinstance(it, It): raise Unsupported('peek on ' + type(it).__name__)
    sent = object(); x = next(it.g, sent)
    if x is sent: it.g = iter(()); return none()
    it.g = itertools.chain([x], it.g)
    cell = {'v': x}; return some(Ref(cell, 'v'))

@M.add(r' as Iterator>::partition::<(Vec|SmallVec)<')
def m_partition(ex, c, args, m):
    yes, no = [], []
    for x in as_it(ex, args[0]):
        cell = {'x': x}
        (yes if truth(ex, call_fn(ex, args[1], [Ref(cell, 'x')])) else no).append(x)
    mk = VecVal if m.group(1) == 'Vec' else SVec
    return tup(mk(yes), mk(no))
