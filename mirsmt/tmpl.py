"""Templates: e-graph histories of concrete shape with every slot name symbolic.

A template is a list of operations over terms (oracle.py's tuple syntax) whose names are indices into a
vector of 32-bit solver variables.  SymRun executes it through the crate's public entry points from MIR
(EGraph::new/add/union/eq/find_applied_id/lookup/ids/progress/check/...), takes a snapshot of the
observables after every operation and, when the path is complete, splits the path by the coincidence
patterns of the names that its path condition admits (decided by the solver) so that every record is a
concrete table row that can be compared with the oracle and replayed natively.
"""
import re, os, json, time, hashlib, itertools
import z3
from .engine import *
from .models import It, tolist
from . import oracle as O

F0_DEFAULT = 33          # the thread's fresh counter when the history starts: 8 fresh slots ($f0..$f7) already issued
NAMED_MAX = 1 << 16      # interned names available to the history: $n0 .. $n65535

LANGS = {
    'Lf': {'f': ('F', 'ss'), 'g': ('G', 'ss'), 'h': ('H', 'sss'), 'w': ('W', 'ssss')},
    'Lm': {'mvar': ('MVar', 's'), 'madd': ('MAdd', 'cc'), 'mmul': ('MMul', 'cc'), 'msum': ('MSum', 'bc'), 'mlet': ('MLet', 'bcc')},
    'La': {'avar': ('AVar', 's'), 'aadd': ('AAdd', 'cc'), 'amul': ('AMul', 'cc'), 'alam': ('ALam', 'bc'), 'num': ('ANum', 'p')},
    'Lb': {'var': ('Var', 's'), 'app': ('App', 'cc'), 'lam': ('Lam', 'bc'), 'k': ('K', 'ss'), 'u': ('U', 'c'), 'j': ('J', 'ss'), 't3': ('T3', 'sss'), 's3': ('S3', 'sss'), 'm3': ('M3', 'sss'), 'at': ('At', 'sc'), 'ta': ('Ta', 'cs'), 'w4': ('W4', 'ssss'), 'v4': ('V4', 'ssss'), 'lt': ('Lt', 'cbc')},
}

class Template:
    def __init__(self, name, lang, nnames, ops, analysis='()', distinct=None, note='', group=None, late=None, subst_method=None, model=False, ordered=None):
        self.subst_method = subst_method      # None = EGraph::new (SynExprSubst); 'ExtractionSubst' / 'SynExprSubst' = EGraph::with_subst_method::<..>
        self.ordered = ordered                   # optional list of name-index chains assumed strictly increasing (cuts the name orders explored; stated in the evidence)
        self.model = model                    # C03: every snapshot carries a dump of all classes (enodes_applied), judged by the model evaluator
        self.name, self.lang, self.nnames, self.ops, self.analysis, self.note = name, lang, nnames, ops, analysis, note
        self.group = group        # templates of one group are reorderings of the same history (C12)
        self.light = False        # light = EGraph::check() and the enode consistency walk only after the last operation
        self.late = late or {}    # name index -> op index at which the name is first written by the user (pattern slots): it may equal any slot issued before that point
        self.distinct = distinct      # optional list of name-index groups assumed pairwise distinct (tied-name variants)
    def key(self): return json.dumps([self.name, self.lang, self.nnames, self.ops, self.analysis, self.distinct, sorted(self.late.items()), self.light] + ([self.subst_method, self.model] if (self.subst_method or self.model) else []) + ([self.ordered] if self.ordered else []), sort_keys=True, default=list)
    def terms(self):
        """all (sub)terms that get a handle, in order of first insertion"""
        out = []
        def rec(t):
            for kind, a in zip(O.SIG[t[0]], t[1:]):
                if kind == 'c': rec(a)
            if t not in out: out.append(t)
        for op in self.ops:
            if op[0] in ('add', 'lookup', 'readd', 'probe'): rec(op[1])
        return out
    def describe(self):
        def show(t):
            if isinstance(t, str): return t
            if isinstance(t, (list, tuple)) and t and isinstance(t[0], (list, tuple)): return '[' + ', '.join(show(x) for x in t) + ']'
            if isinstance(t, (list, tuple)) and len(t) == 2 and isinstance(t[0], str) and t[0].startswith('?'): return '%s == %s' % (t[0], show(t[1]))
            if t[0] == 'rule': return '%s: %s => %s' % (t[1], show(t[2]), show(t[3]))
            if t[0] == 'rule_if': return '%s: %s => %s if %s($%s)' % (t[1], show(t[2]), show(t[3]), t[4], 'abcdefghijklmnop'[t[5]])
            if t[0] == 'subst': return '%s[%s := %s]' % (show(t[1]), show(t[2]), show(t[3]))
            sig = O.SIG[t[0]]
            return '(' + t[0] + ''.join(' $' + 'abcdefghijklmnop'[a] if k in 'sb' else (' %d' % a if k == 'p' else ' ' + show(a)) for k, a in zip(sig, t[1:])) + ')'
        return '; '.join(op[0] + ' ' + ' '.join(show(x) if isinstance(x, (tuple, list, str)) else str(x) for x in op[1:]) for op in self.ops)

def name_precondition(N, f0=F0_DEFAULT):
    cs = []
    for n in N:
        r = n & 3
        cs.append(r != 3)                                         # no public constructor yields the unused residue class
        cs.append(z3.Implies(r == 1, z3.ULT(n, z3.BitVecVal(f0, 32))))   # fresh-class names were issued before the history starts
        cs.append(z3.Implies(r == 2, z3.ULT(n, z3.BitVecVal(4 * NAMED_MAX, 32))))
    return cs

class PatStr:
    """stands for the text of a pattern whose value is already built (Pattern::parse is decided by C18)"""
    def __init__(self, pat): self.pat = pat

from .models import M as _M
@_M.add(r'^parse::<impl (rewrite::pattern::)?Pattern<L>>::parse$|Pattern::<.*>::parse$', front=True, first=True)
def _m_parse_patstr(ex, c, args, m):
    a = dd(args[0])
    if isinstance(a, PatStr): return ok(cp(a.pat))
    return NotImplemented

@_M.add(r'^<str as ToString>::to_string$|^<&str as ToString>::to_string$|^<str as ToOwned>::to_owned$|^core::str::<impl str>::to_string$', front=True, first=True)
def _m_patstr_to_string(ex, c, args, m):
    return PyStr('<pattern text>') if isinstance(dd(args[0]), PatStr) else NotImplemented

class SymRun:
    """executes a template on an executor; collects snapshots"""
    def __init__(self, ex, tmpl, opts=None):
        self.ex, self.t = ex, tmpl
        self.S = ex.session; self.R = ex.resolver
        self.opts = opts or {}
        self.N = [z3.BitVec('n%d' % i, 32) for i in range(tmpl.nnames)]
        self.handles = {}       # term -> Ref-able handle value (AppliedId struct)
        self.order = []         # terms in handle order
        self.snaps = []
        self.panic = None
        self.lang = tmpl.lang
        self.variants = LANGS[tmpl.lang]

    def M(self, spec): return self.R.M(spec)

    def setup(self):
        ex = self.ex
        self.R.tymap.clear(); self.R.tymap.update({'L': self.lang, 'N': self.t.analysis, 'CF': 'AstSize'})
        f0 = self.opts.get('f0', F0_DEFAULT)
        ex.table['tab'] = Struct({0: z3.BitVecVal(f0, 32), 1: Opaque('named_vec'), 2: Opaque('named_map')}, 'SlotTable')
        for c in name_precondition([n for i, n in enumerate(self.N) if i not in self.t.late], f0): ex.assume(c)
        if self.t.distinct:
            for grp in self.t.distinct: ex.assume(z3.Distinct(*[self.N[i] for i in grp]))
        for chain in (self.t.ordered or []):
            for a, b in zip(chain, chain[1:]): ex.assume(z3.ULT(self.N[a], self.N[b]))
        for c in self.opts.get('assume', lambda N: [])(self.N): ex.assume(c)
        analysis = Unit() if self.t.analysis == '()' else Struct({}, self.t.analysis)
        sm = getattr(self.t, 'subst_method', None)
        if sm:
            self.R.tymap['S'] = sm
            self.eg = {'eg': ex.call(self.M('EGraph::with_subst_method'), [analysis])}
        else: self.eg = {'eg': ex.call(self.M('EGraph::new'), [analysis])}
        self.egref = Ref(self.eg, 'eg')

    # ---- term construction
    def node(self, term):
        vname, sig = self.variants[term[0]]
        fields = {}; i = 1; fi = 0; pending_bind = None
        for kind in sig:
            a = term[i]; i += 1
            if kind == 's': fields[fi] = slot(self.N[a]); fi += 1
            elif kind == 'p': fields[fi] = U32(a); fi += 1
            elif kind == 'b': pending_bind = a
            else:
                child = cp(self.handles[a])
                if pending_bind is not None:
                    fields[fi] = Struct({0: slot(self.N[pending_bind]), 1: child}, 'Bind'); pending_bind = None
                else: fields[fi] = child
                fi += 1
        return Enum(self.S.enums[self.lang + '::' + vname], Struct(fields), self.lang)

    def add(self, term):
        for kind, a in zip(O.SIG[term[0]], term[1:]):
            if kind == 'c' and a not in self.handles: self.add(a)
        h = self.ex.call(self.M('EGraph::add'), [self.egref, self.node(term)])
        if term not in self.handles: self.handles[term] = h; self.order.append(term)
        return h

    def href(self, term): return Ref(self.handles, term)

    def run(self):
        """returns normally also when the crate panics (recorded)"""
        ex = self.ex
        try:
            self.setup()
            self.snapshot(('new',))
            for k, op in enumerate(self.t.ops):
                late = [self.N[i] for i, at in self.t.late.items() if at == k]
                if late:
                    for c in name_precondition(late, conc(ex.table['tab'].f[0])): ex.assume(c)
                self.step(op)
                self.snapshot(op)
        except Panic as p:
            self.panic = {'msg': p.msg, 'where': p.where or (ex.stack[-1] if ex.stack else None), 'stack': [short_fn(x) for x in ex.stack[-8:]], 'after_steps': len(self.snaps)}

    def step(self, op):
        ex = self.ex
        if op[0] == 'add': self.add(op[1]); return
        if op[0] == 'union':
            if len(op) > 3:      # union with a justification (explanations)
                r = ex.call(self.M('EGraph::union_justified'), [self.egref, self.href(op[1]), self.href(op[2]), some(PyStr(op[3]))])
            else: r = ex.call(self.M('EGraph::union'), [self.egref, self.href(op[1]), self.href(op[2])])
            self.last_union = ex.decide(r) if z3.is_expr(r) else bool(r); return
        if op[0] == 'readd':
            # C09: re-insertion of a represented term (same names) must allocate nothing and return an equal invocation
            before = self.alloc_count()
            # lookup first (must not modify), then add
            lk = self.lookup_term(op[1])
            h = self.ex.call(self.M('EGraph::add'), [self.egref, self.node(op[1])])
            self.extra = {'readd': {'term': op[1], 'lookup_some': lk is not None, 'alloc_delta': self.alloc_count() - before,
                                    'eq_old': self.eq(h, self.handles[op[1]]) if op[1] in self.handles else None,
                                    'lookup_eq_add': self.eq(lk, h) if lk is not None else None,
                                    'ret_vals': [q.f[1].f[0] for q in h.f[1].f[0].items],
                                    'lk_vals': None if lk is None else [q.f[1].f[0] for q in lk.f[1].f[0].items]}}
            return
        if op[0] == 'probe':
            h = self.lookup_full(op[1])
            self.extra = {'probe': {'found': h is not None}}
            if h is not None and op[1] not in self.handles: self.handles[op[1]] = h; self.order.append(op[1])
            elif h is None and op[1] not in self.handles: self.handles[op[1]] = None; self.order.append(op[1])
            return
        if op[0] == 'ematch':
            pat = {'p': self.pat_value(op[1])}
            before = self.fingerprint()
            ms = ex.call(self.M('ematch_all'), [self.egref, Ref(pat, 'p')])
            out = []
            for sub in ms.items:
                bound = sorted(str(k) for k, _ in sub.items)
                inst = self.lookup_pattern(op[1], sub)
                out.append({'bound': bound, 'found': inst is not None, 'inst': self.describe_handle(inst) if inst is not None else None,
                            'binds': {str(k): self.describe_handle(v) for k, v in sub.items}})
            self.extra = {'ematch': {'matches': out, 'unchanged': self.fingerprint() == before}}
            return
        if op[0] == 'extract':
            term, cf = op[1], op[2]
            self.R.tymap['CF'] = cf
            ext = {'x': ex.call(self.M('Extractor::new'), [self.egref, Struct({}, cf)])}
            canon = {'c': ex.call(self.M('EGraph::find_applied_id'), [self.egref, self.href(term)])}
            re_ = {'r': ex.call(self.M('Extractor::extract'), [Ref(ext, 'x'), self.href(term), self.egref])}
            cost = ex.call(self.M('Extractor::get_best_cost'), [Ref(ext, 'x'), Ref(canon, 'c')])
            lk = ex.call(self.M('lookup_rec_expr'), [Ref(re_, 'r'), self.egref])
            self.extra = {'extract': {'cf': cf, 'cost': conc(cost), 'term': self.describe_rec(re_['r']), 'lookup_some': lk.disc == 1,
                                      'lookup_eq': self.eq(lk.payload.f[0], self.handles[term]) if lk.disc == 1 else None}}
            # the free function extract::<L, N, CF> (what ast_size_extract and the substitution methods call): its own result obeys the same obligations
            fr = {'r': ex.call(self.M('extract'), [self.href(term), self.egref])}
            lk2 = ex.call(self.M('lookup_rec_expr'), [Ref(fr, 'r'), self.egref])
            self.extra['extract'].update({'free_term': self.describe_rec(fr['r']), 'free_lookup_some': lk2.disc == 1,
                                          'free_lookup_eq': self.eq(lk2.payload.f[0], self.handles[term]) if lk2.disc == 1 else None})
            return
        if op[0] == 'explain':
            # C07: EGraph::explain_equivalence on two terms given as RecExpr; the returned proof DAG is dumped with every equation written out on terms (get_syn_expr)
            ra, rb = self.rec_expr(op[1]), self.rec_expr(op[2])
            prf = ex.call(self.M('EGraph::explain_equivalence'), [self.egref, ra, rb])
            self.extra = {'explain': self.dump_proof(prf)}
            return
        if op[0] == 'mmatch':
            # multi-pattern: list of equations (?v, node pattern whose children are variables)
            E_ = self.S.enums; eqs = []
            for v, npat in op[1]:
                pv = self.pat_value(npat)               # ENode(node, [PVar..])
                kids = VecVal([PyStr(k.payload.f[0]) for k in pv.payload.f[1].items])
                eqs.append(tup(PyStr(v[1:]), pv.payload.f[0], kids))
            mp = {'m': Struct({0: VecVal(eqs)}, 'MultiPattern')}
            before = self.fingerprint()
            ms = ex.call(self.M('multi_ematch'), [Ref(mp, 'm'), self.egref])
            out = []
            for sub in ms.items:
                bound = sorted(str(k) for k, _ in sub.items); holds = []
                for v, npat in op[1]:
                    inst = self.lookup_pattern(npat, sub); lhs = None
                    for k, val in sub.items:
                        if str(k) == v[1:]: lhs = val
                    holds.append(bool(inst is not None and lhs is not None and self.eq(inst, lhs)))
                out.append({'bound': bound, 'equations_hold': holds})
            self.extra = {'mmatch': {'matches': sorted(out, key=lambda x: json.dumps(x, sort_keys=True)), 'unchanged': self.fingerprint() == before}}
            return
        if op[0] == 'rewrite':
            rws = [self.mk_rewrite(r) for r in op[1]]
            r = ex.call(self.M('apply_rewrites'), [self.egref, SliceRef(rws, 0, len(rws))])
            self.extra = {'rewrite_ret': ex.decide(r) if z3.is_expr(r) else bool(r)}
            return
        raise Unsupported('template op ' + str(op[0]))

    # ---- patterns / rewrites
    def null_id(self): return Struct({0: Struct({0: U64(0)}, 'Id'), 1: Struct({0: SVec([])}, 'SlotMap')}, 'AppliedId')
    def pat_value(self, p):
        E = self.S.enums
        if isinstance(p, str): return Enum(E['Pattern::PVar'], Struct({0: PyStr(p[1:])}), 'Pattern')
        if p[0] == 'subst':      # b[x := t]
            return Enum(E['Pattern::Subst'], Struct({0: boxed(self.pat_value(p[1])), 1: boxed(self.pat_value(p[2])), 2: boxed(self.pat_value(p[3]))}), 'Pattern')
        vname, sig = self.variants[p[0]]
        fields = {}; kids = []; i = 1; fi = 0; pending = None
        for kind in sig:
            a = p[i]; i += 1
            if kind == 's': fields[fi] = slot(self.N[a]); fi += 1
            elif kind == 'p': fields[fi] = U32(a); fi += 1
            elif kind == 'b': pending = a
            else:
                kids.append(self.pat_value(a))
                if pending is not None: fields[fi] = Struct({0: slot(self.N[pending]), 1: self.null_id()}, 'Bind'); pending = None
                else: fields[fi] = self.null_id()
                fi += 1
        node = Enum(E[self.lang + '::' + vname], Struct(fields), self.lang)
        return Enum(E['Pattern::ENode'], Struct({0: node, 1: VecVal(kids)}), 'Pattern')
    def mk_rewrite(self, rule):
        if rule[0] == 'rule_if':       # conditional rule; the condition is a closure of the harness crate
            _, name, lhs, rhs, cond, carg = rule
            c = self.ex.call(self.M(cond), [slot(self.N[carg])])
            return self.ex.call(self.M('Rewrite::new_if'), [PyStr(name), PatStr(self.pat_value(lhs)), PatStr(self.pat_value(rhs)), c])
        _, name, lhs, rhs = rule
        return self.ex.call(self.M('Rewrite::new'), [PyStr(name), PatStr(self.pat_value(lhs)), PatStr(self.pat_value(rhs))])
    def lookup_pattern(self, p, sub):
        """instantiate the pattern with the substitution using EGraph::lookup only (nothing is inserted); None if some node is not represented"""
        if isinstance(p, str):
            for k, v in sub.items:
                if str(k) == p[1:]: return v
            return None
        vname, sig = self.variants[p[0]]
        fields = {}; i = 1; fi = 0; pending = None
        for kind in sig:
            a = p[i]; i += 1
            if kind == 's': fields[fi] = slot(self.N[a]); fi += 1
            elif kind == 'p': fields[fi] = U32(a); fi += 1
            elif kind == 'b': pending = a
            else:
                ch = self.lookup_pattern(a, sub)
                if ch is None: return None
                ch = cp(ch)
                if pending is not None: fields[fi] = Struct({0: slot(self.N[pending]), 1: ch}, 'Bind'); pending = None
                else: fields[fi] = ch
                fi += 1
        cell = {'n': Enum(self.S.enums[self.lang + '::' + vname], Struct(fields), self.lang)}
        r = self.ex.call(self.M('EGraph::lookup'), [self.egref, Ref(cell, 'n')])
        return r.payload.f[0] if r.disc == 1 else None
    def lookup_full(self, term):
        """lookup of a whole term bottom-up without inserting"""
        hs = {}
        def rec(t):
            if t in self.handles and self.handles[t] is not None: return self.handles[t]
            vname, sig = self.variants[t[0]]
            fields = {}; i = 1; fi = 0; pending = None
            for kind in sig:
                a = t[i]; i += 1
                if kind == 's': fields[fi] = slot(self.N[a]); fi += 1
                elif kind == 'p': fields[fi] = U32(a); fi += 1
                elif kind == 'b': pending = a
                else:
                    ch = rec(a)
                    if ch is None: return None
                    ch = cp(ch)
                    if pending is not None: fields[fi] = Struct({0: slot(self.N[pending]), 1: ch}, 'Bind'); pending = None
                    else: fields[fi] = ch
                    fi += 1
            cell = {'n': Enum(self.S.enums[self.lang + '::' + vname], Struct(fields), self.lang)}
            r = self.ex.call(self.M('EGraph::lookup'), [self.egref, Ref(cell, 'n')])
            return r.payload.f[0] if r.disc == 1 else None
        return rec(term)
    def describe_rec(self, re_):
        """RecExpr -> nested list [op, slot values / sub-terms ...] (the AppliedIds inside the node are placeholders)"""
        node = re_.f[0]; kids = list(re_.f[1].items)
        rev = {v: k.split('::')[1] for k, v in self.S.enums.items() if k.startswith(self.lang + '::')}
        vname = rev[node.disc]; op = next(o for o, (vn, _) in self.variants.items() if vn == vname)
        out = [op]; fi = 0
        for kind in self.variants[op][1]:
            if kind == 's': out.append(node.payload.f[fi].f[0]); fi += 1
            elif kind == 'p': out.append(('#', conc(node.payload.f[fi]))); fi += 1
            elif kind == 'b': out.append(node.payload.f[fi].f[0].f[0])
            else: out.append(self.describe_rec(kids.pop(0))); fi += 1
        return out

    def rec_expr(self, term):
        vname, sig = self.variants[term[0]]
        fields = {}; kids = []; i = 1; fi = 0; pending = None
        for kind in sig:
            a = term[i]; i += 1
            if kind == 's': fields[fi] = slot(self.N[a]); fi += 1
            elif kind == 'p': fields[fi] = U32(a); fi += 1
            elif kind == 'b': pending = a
            else:
                kids.append(self.rec_expr(a))
                if pending is not None: fields[fi] = Struct({0: slot(self.N[pending]), 1: self.null_id()}, 'Bind'); pending = None
                else: fields[fi] = self.null_id()
                fi += 1
        return Struct({0: Enum(self.S.enums[self.lang + '::' + vname], Struct(fields), self.lang), 1: VecVal(kids)}, 'RecExpr')

    def dump_proof(self, prf):
        """proof DAG -> {'root': k, 'nodes': [{'rule', 'l': term, 'r': term, 'prem': [k..], 'just'}]}; terms via EGraph::get_syn_expr (all syntactic slots written out)"""
        ex = self.ex; E = self.S.enums
        rules = {E['Proof::Explicit']: 'explicit', E['Proof::Reflexivity']: 'refl', E['Proof::Symmetry']: 'sym', E['Proof::Transitivity']: 'trans', E['Proof::Congruence']: 'cong'}
        ei = self.S.field_index('ProvenEqRaw', 'eq'); pi_ = self.S.field_index('ProvenEqRaw', 'proof')
        index = {}; nodes = []
        def term_of(aid):
            re_ = {'r': ex.call(self.M('EGraph::get_syn_expr'), [self.egref, Ref({'a': aid}, 'a')])}
            return self.describe_rec(re_['r'])
        def visit(arc):
            raw = dd(arc); key = id(raw)
            if key in index: return index[key]
            k = len(nodes); index[key] = k; nodes.append(None)
            eq = raw.f[ei]; pr = raw.f[pi_]
            rule = rules[pr.disc]; prem = []; just = None
            inner = pr.payload.f[0]
            if rule == 'explicit':
                o = inner.f[0]
                just = str(dd(o.payload.f[0])) if o.disc == 1 else None
            elif rule == 'sym': prem = [visit(inner.f[0])]
            elif rule == 'trans': prem = [visit(inner.f[0]), visit(inner.f[1])]
            elif rule == 'cong': prem = [visit(x) for x in dd(inner.f[0]).items]
            nodes[k] = {'rule': rule, 'l': term_of(eq.f[0]), 'r': term_of(eq.f[1]), 'prem': prem, 'just': just}
            return k
        root = visit(prf)
        return {'root': root, 'nodes': nodes}

    def describe_node(self, node):
        """e-node value -> [op, slot value | {'id', 'map': [[key, value]...]} ...] (binder slot before its child)"""
        rev = {v: k.split('::')[1] for k, v in self.S.enums.items() if k.startswith(self.lang + '::')}
        vname = rev[node.disc]; op = next(o for o, (vn, _) in self.variants.items() if vn == vname)
        def aid(a): return {'id': conc(a.f[0].f[0]), 'map': [[q.f[0].f[0], q.f[1].f[0]] for q in a.f[1].f[0].items]}
        out = [op]; fi = 0; bind = False
        for kind in self.variants[op][1]:
            if kind == 's': out.append(node.payload.f[fi].f[0]); fi += 1
            elif kind == 'p': out.append(('#', conc(node.payload.f[fi]))); fi += 1
            elif kind == 'b': out.append(node.payload.f[fi].f[0].f[0]); bind = True
            else:
                v = node.payload.f[fi]; fi += 1
                out.append(aid(v.f[1]) if bind else aid(v)); bind = False
        return out

    def describe_handle(self, h):
        c = self.ex.call(self.M('EGraph::find_applied_id'), [self.egref, Ref({'h': h}, 'h')])
        return {'id': conc(c.f[0].f[0]), 'vals': [p.f[1].f[0] for p in c.f[1].f[0].items]}
    def fingerprint(self):
        ex = self.ex
        pr = ex.call(self.M('EGraph::progress'), [self.egref])
        return ([conc(pr.f[i]) for i in range(4)], conc(ex.call(self.M('EGraph::total_number_of_nodes'), [self.egref])))

    # ---- observations
    def eq(self, a, b):
        cell = {'a': a, 'b': b}
        r = self.ex.call(self.M('EGraph::eq'), [self.egref, Ref(cell, 'a'), Ref(cell, 'b')])
        return self.ex.decide(r) if z3.is_expr(r) else bool(r)

    def alloc_count(self):
        r = self.ex.call(self.M('EGraph::progress'), [self.egref]); return conc(r.f[0])

    def lookup_term(self, term):
        """EGraph::lookup on the top node with the existing children handles; None if absent"""
        for kind, a in zip(O.SIG[term[0]], term[1:]):
            if kind == 'c' and a not in self.handles: return None
        cell = {'n': self.node(term)}
        r = self.ex.call(self.M('EGraph::lookup'), [self.egref, Ref(cell, 'n')])
        return r.payload.f[0] if r.disc == 1 else None

    def snapshot(self, op):
        ex = self.ex; R = self.R
        snap = {'op': op}
        terms = list(self.order)
        canon = []
        for t in terms:
            if self.handles[t] is None:        # probe of a term that is not represented
                canon.append(None); continue
            c = ex.call(self.M('EGraph::find_applied_id'), [self.egref, self.href(t)])
            cid = conc(c.f[0].f[0]); pairs = c.f[1].f[0].items
            cellc = {'c': c}
            # canonicalising twice equals canonicalising once
            c2 = ex.call(self.M('EGraph::find_applied_id'), [self.egref, Ref(cellc, 'c')])
            idem = ex.decide(val_eq(c, c2))
            canon.append({'id': cid, 'vals': [p.f[1].f[0] for p in pairs], 'keys': [p.f[0].f[0] for p in pairs], 'idem': idem,
                          'hvals': [p.f[1].f[0] for p in self.handles[t].f[1].f[0].items]})
            if self.t.analysis != '()':      # the datum read through the handle's own (possibly merged-away) id: equal classes share one datum
                canon[-1]['hdata'] = data_value(dd(ex.call(self.M('EGraph::analysis_data'), [self.egref, cp(self.handles[t].f[0])])))
        snap['canon'] = canon
        snap['eq'] = [[(self.eq(self.handles[a], self.handles[b]) if self.handles[a] is not None and self.handles[b] is not None else False) for b in terms] for a in terms]
        ids = ex.call(self.M('EGraph::ids'), [self.egref])
        live = [conc(i.f[0]) for i in ids.items]
        snap['live'] = live
        snap['nodes'] = conc(ex.call(self.M('EGraph::total_number_of_nodes'), [self.egref]))
        pr = ex.call(self.M('EGraph::progress'), [self.egref])
        snap['progress'] = [conc(pr.f[i]) for i in range(4)]
        cls = {}
        for i in live:
            idv = Struct({0: U64(i)}, 'Id')
            sl = ex.call(self.M('EGraph::slots'), [self.egref, idv])
            cls[i] = {'nslots': len(sl.items), 'gcount': self.perm_count(i, idv), 'gcount_int': self.group_count(i)}
            if self.t.analysis != '()':
                cls[i]['data'] = data_value(dd(ex.call(self.M('EGraph::analysis_data'), [self.egref, idv])))
                # the datum is the merge-fold of make over the class's e-nodes, computed from the children's current data (the crate's own make/merge)
                acc = None
                for n in ex.call(self.M('EGraph::enodes'), [self.egref, idv]).items:
                    v = ex.call_callee('<N as analysis::Analysis<L>>::make', [self.egref, Ref({'n': n}, 'n')])
                    acc = v if acc is None else ex.call_callee('<N as analysis::Analysis<L>>::merge', [acc, v])
                cls[i]['data_fix'] = None if acc is None else data_value(acc)
        snap['classes'] = cls
        if self.t.model:
            dump = {}
            for i in live:
                idv = Struct({0: U64(i)}, 'Id')
                ident = {'a': ex.call(self.M('EGraph::mk_identity_applied_id'), [self.egref, idv])}
                nodes = ex.call(self.M('EGraph::enodes_applied'), [self.egref, Ref(ident, 'a')])
                dump[i] = {'slots': [q.f[1].f[0] for q in ident['a'].f[1].f[0].items], 'nodes': [self.describe_node(n) for n in nodes.items]}
            snap['dump'] = dump
        if self.opts.get('check', True) and (not self.t.light or len(self.snaps) == len(self.t.ops)):
            snap['check'] = self.run_check()
        if getattr(self, 'extra', None): snap.update(self.extra); self.extra = None
        if op[0] == 'union': snap['union_ret'] = self.last_union
        self.snaps.append(snap)

    def perm_count(self, i, idv):
        """number of permutations of the class's slots under which the identity invocation stays equal (public API: eq)"""
        ex = self.ex
        ident = ex.call(self.M('EGraph::mk_identity_applied_id'), [self.egref, idv])
        pairs = ident.f[1].f[0].items
        n = len(pairs); cnt = 0
        for perm in itertools.permutations(range(n)):
            other = cp(ident)
            for j in range(n): other.f[1].f[0].items[j].f[1] = cp(pairs[perm[j]].f[1])
            if self.eq(ident, other): cnt += 1
        return cnt

    def group_count(self, i):
        eg = self.eg['eg']
        ci = self.S.field_index('EGraph', 'classes'); gi = self.S.field_index('EClass', 'group')
        for k, v in eg.f[ci].items:
            if conc(k.f[0]) == i: return conc(self.ex.call(self.M('Group::count'), [Ref(v.f, gi)]))
        return None

    def run_check(self):
        """the crate's own EGraph::check() + the listed consistency conditions; a panic inside is recorded, not propagated"""
        ex = self.ex
        out = {'check': 'ok'}; _d0 = ex.depth()
        try:
            ex.call(self.M('EGraph::check'), [self.egref])
        except Panic as p:
            out['check'] = 'panic: ' + p.msg + ' @ ' + short_fn(p.where or (ex.stack[-1] if ex.stack else '?'))
            ex.unwind_to(_d0)
            return out
        # every e-node listed for a class looks up to that class; nodes mention all class slots
        bad = []
        for i in self.snaps[-1]['live'] if False else [conc(x.f[0]) for x in ex.call(self.M('EGraph::ids'), [self.egref]).items]:
            idv = Struct({0: U64(i)}, 'Id')
            nodes = ex.call(self.M('EGraph::enodes'), [self.egref, idv])
            sl = ex.call(self.M('EGraph::slots'), [self.egref, idv])
            for n in nodes.items:
                cell = {'n': n}
                r = ex.call(self.M('EGraph::lookup'), [self.egref, Ref(cell, 'n')])
                if r.disc != 1 or conc(r.payload.f[0].f[0].f[0]) != i: bad.append(('lookup', i))
                ns = ex.call_callee('<L as lang::Language>::slots', [Ref(cell, 'n')])
                for s in sl.items:
                    if not any(ex.decide(val_eq(s, y)) for y in ns.items): bad.append(('slots', i))
        if bad: out['consistency'] = bad
        return out

def data_value(v):
    """analysis datum -> JSON value: integers as they are, Option<u32> as the number or 'none'"""
    if isinstance(v, Enum): return conc(v.payload.f[0]) if v.disc == 1 else 'none'
    return conc(v)

def short_fn(name):
    if not name: return name
    return re.sub(r'<impl at ([^:>]+):\d+:\d+: \d+:\d+>', lambda m: '<' + os.path.basename(m.group(1)) + '>', name)

# ------------------------------------------------------------------ splitting a finished path by coincidence pattern
def partitions_of_path(ex, N, extra=()):
    """AllSAT over the coincidence patterns of the names admitted by the path condition; yields (pattern, model)"""
    out = []
    s = z3.Solver(); s.set('timeout', ex.solver_timeout_ms); s.add(*ex.pc); s.add(*extra)
    while True:
        r = s.check()
        if r == z3.unknown: raise Unsupported('solver unknown while enumerating patterns')
        if r == z3.unsat: break
        m = s.model()
        vals = [m.eval(n, model_completion=True).as_long() for n in N]
        seen = {}; pat = tuple(seen.setdefault(v, len(seen)) for v in vals)
        out.append((pat, vals, m))
        # block this pattern
        cs = []
        for i in range(len(N)):
            for j in range(i + 1, len(N)):
                cs.append(N[i] == N[j] if pat[i] == pat[j] else N[i] != N[j])
        s.add(z3.Not(z3.And(*cs)) if cs else z3.BoolVal(False))
    return out

def name_of_value(v, N, vals, model, visible=None):
    """which template name a slot value denotes under the model: index, or 'x<value>' for an internally generated slot.
    Names the user writes only later (pattern slots) are not yet names at this step: an internal slot that such a name will coincide with is still internal"""
    x = model.eval(v, model_completion=True).as_long()
    for i, nv in enumerate(vals):
        if nv == x and (visible is None or i in visible): return i
    return 'x%d' % x

def norm_fresh(v):
    """slots invented by the crate are reported as 'fresh' (their numbers depend on the counter)"""
    return 'fresh' if v.startswith('x') else v

def norm_slot_label(v): return v

def concretize(run, ex):
    """one record per coincidence pattern admitted by the finished path"""
    recs = []
    N = run.N
    for pat, vals, model in partitions_of_path(ex, N):
        steps = []
        for si, s in enumerate(run.snaps):
            vis = {i for i in range(len(N)) if run.t.late.get(i, -1) < si}      # step si = after op si-1; a late name written by op k is visible from step k+1
            _nov = name_of_value
            def name_of_value_(v, N_, vals_, model_, vis=vis): return _nov(v, N_, vals_, model_, vis)
            st = {k: v for k, v in s.items() if k not in ('canon',)}
            st['op'] = list(s['op'])
            st['canon'] = [None if c is None else {'id': c['id'], 'idem': c['idem'], 'nslots': len(c['vals']), **({'hdata': c['hdata']} if 'hdata' in c else {}),
                            'vals': sorted(str(name_of_value_(v, N, vals, model)) for v in c['vals']),
                            'map': sorted((str(name_of_value_(k, N, vals, model)), str(name_of_value_(v, N, vals, model))) for k, v in zip(c['keys'], c['vals'])),
                            'hvals': sorted(str(name_of_value_(v, N, vals, model)) for v in c['hvals'])} for c in s['canon']]
            if st.get('readd'):
                st['readd'] = dict(st['readd'])
                for kk in ('ret_vals', 'lk_vals'):
                    if st['readd'].get(kk) is not None: st['readd'][kk] = sorted(str(name_of_value_(v, N, vals, model)) for v in st['readd'][kk])
            if 'dump' in st:
                def lab(v): return norm_slot_label(str(name_of_value_(v, N, vals, model)))
                def dn(n): return [n[0]] + [({'id': a['id'], 'map': [[lab(k), lab(v)] for k, v in a['map']]} if isinstance(a, dict) else lab(a)) for a in n[1:]]
                st['dump'] = {str(k): {'slots': [lab(x) for x in c['slots']], 'nodes': [dn(n) for n in c['nodes']]} for k, c in st['dump'].items()}
            if 'extract' in st:
                def dt(t): return [t[0]] + [dt(a) if isinstance(a, list) else norm_fresh(str(name_of_value_(a, N, vals, model))) for a in t[1:]]
                st['extract'] = dict(st['extract']); st['extract']['term'] = dt(st['extract']['term'])
                if st['extract'].get('free_term') is not None: st['extract']['free_term'] = dt(st['extract']['free_term'])
            if 'explain' in st:
                def pt(t): return [t[0]] + [pt(a) if isinstance(a, list) else (a if isinstance(a, tuple) else str(name_of_value_(a, N, vals, model))) for a in t[1:]]
                st['explain'] = {'root': st['explain']['root'], 'nodes': [dict(nd, l=pt(nd['l']), r=pt(nd['r'])) for nd in st['explain']['nodes']]}
            if 'ematch' in st:
                def dh(h): return None if h is None else {'id': h['id'], 'vals': sorted(norm_fresh(str(name_of_value_(v, N, vals, model))) for v in h['vals'])}
                st['ematch'] = {'unchanged': st['ematch']['unchanged'], 'matches': sorted(({'bound': mt['bound'], 'found': mt['found'], 'inst': dh(mt['inst']), 'binds': {k: dh(v) for k, v in mt['binds'].items()}} for mt in st['ematch']['matches']), key=lambda x: json.dumps(x, sort_keys=True))}
            st['classes'] = {str(k): v for k, v in s['classes'].items()}
            steps.append(st)
        recs.append({'pattern': list(pat), 'values': vals, 'steps': steps, 'panic': run.panic})
    return recs

# ------------------------------------------------------------------ exploration with caching
def explore_template(session, tmpl, opts=None, budget_paths=5000, budget_s=1200, hash_order='ins'):
    """returns dict(template, paths=[{prefix, records}], stats)"""
    ex = session.executor()
    ex.hash_order = hash_order
    t0 = time.time()
    paths = []
    def entry(ex_):
        run = SymRun(ex_, tmpl, opts); run.run(); return run
    work = [[]]
    n = 0
    while work:
        if n >= budget_paths: raise Budget('path budget')
        if time.time() - t0 > budget_s: raise Budget('wall budget')
        for p in ex.run_prefix(entry, work.pop(), work):
            n += 1
            if p['kind'] != 'ok': raise Unsupported('unexpected executor-level panic ' + str(p['result']))
            run = p['result']
            recs = concretize(run, ex)
            paths.append({'prefix': p['prefix'], 'npc': len(p['pc']), 'records': recs})
    return {'template': tmpl.name, 'ops': tmpl.describe(), 'nnames': tmpl.nnames, 'hash_order': hash_order, 'paths': paths,
            'stats': {'paths': len(paths), 'wall_s': round(time.time() - t0, 2), 'solver_queries': ex.n_solver, 'solver_s': round(ex.t_solver, 2),
                      'branches': ex.n_branches, 'functions_encoded': sorted(short_fn(f) for f in ex.inlined), 'library_models': sorted(ex.modelled)}}
