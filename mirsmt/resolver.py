"""Name resolution between MIR call expressions and MIR function definitions.

rustc names methods by the source location of their impl block (`<impl at src/x.rs:L:C: L:C>`), which
moves with every edit.  The resolver reads the impl header (or derive attribute, or macro invocation)
at that location from the same source snapshot the MIR was dumped from and indexes functions by
(self type, trait, method), so that obligations and models can say `EGraph::add` or
`<SlotMap as Permutation>::compose` and keep working when lines shift.
"""
import re, os
from .engine import strip_turbofish, split_top, Unsupported, Struct, Enum, Ref, VecVal, dd

_IMPL_AT = re.compile(r'<impl at ([^:>]+):(\d+):(\d+): (\d+):(\d+)>')

def _strip_generics(t):
    """remove <...> groups and lifetimes, module paths; keep leading & and tuple/array punctuation"""
    out, d = [], 0
    i = 0
    while i < len(t):
        c = t[i]
        if c == '<': d += 1
        elif c == '>' and (i == 0 or t[i-1] not in '-='): d -= 1
        elif d == 0: out.append(c)
        i += 1
    s = ''.join(out)
    s = re.sub(r"'\w+\s*", '', s)
    s = re.sub(r'\bmut\s+', '', s)
    s = re.sub(r'(\w+::)+', '', s)
    s = re.sub(r'\bdyn\s+', 'dyn ', s)
    return re.sub(r'\s+', ' ', s).strip()

def norm_type(t):
    t = t.strip()
    t = _strip_generics(t)
    t = t.replace(' ', '')
    return t

def parse_impl_header(text):
    """'impl<..> Trait<..> for Type<..> where ..' -> (type, trait|None)"""
    t = text.strip()
    if not t.startswith('impl'): return None
    t = t[4:].lstrip()
    if t.startswith('<'):
        d = 0
        for j, c in enumerate(t):
            if c == '<': d += 1
            elif c == '>' and t[j-1] not in '-=':
                d -= 1
                if d == 0: t = t[j+1:].lstrip(); break
    t = re.split(r'\bwhere\b', t)[0]
    t = t.split('{')[0].strip()
    d = 0; pos = None
    for j, c in enumerate(t):
        if c in '<([': d += 1
        elif c in ')]' or (c == '>' and t[j-1] not in '-='): d -= 1
        elif d == 0 and t.startswith(' for ', j): pos = j; break
    if pos is not None: return norm_type(t[pos+5:]), norm_type(t[:pos])
    return norm_type(t), None

class Resolver:
    def __init__(self, fns, crates):
        """crates: list of (prefix, root_dir) - prefix is the prefix used for that crate's fn names ('' for the main crate)"""
        self.fns = fns; self.crates = crates
        self.by_tm = {}      # (type, method) -> [(trait, fname)]
        self.defaults = {}   # (trait, method) -> fname   (provided trait methods)
        self.free = {}       # last path segment -> [fname]
        self.closure_fn = {} # closure location -> fname
        self.impl_info = {}  # impl-location text -> (type, trait)
        self._src = {}
        self.tymap = {}      # type parameter -> concrete type (set per obligation)
        self.handwritten = set()   # fn names defined in a written (not derived / macro generated) impl block
        self.impls = set()         # (type, trait) pairs seen
        self.alias = {}
        for p_, root in crates:
            for d, _, fn in os.walk(os.path.join(root, 'src')):
                for f in fn:
                    if f.endswith('.rs'):
                        src_ = open(os.path.join(d, f)).read()
                        for m in re.finditer(r'\btype\s+(\w+)\s*=\s*(\w+)\s*;', src_): self.alias[m.group(1)] = m.group(2)
                        for m in re.finditer(r'\buse\s+(?:\w+::)*(\w+)\s+as\s+(\w+)\s*;', src_): self.alias.setdefault(m.group(2), m.group(1))
        self._index()

    def _lines(self, prefix, path):
        key = (prefix, path)
        if key not in self._src:
            root = dict(self.crates)[prefix]
            try: self._src[key] = open(os.path.join(root, path)).read().split('\n')
            except OSError: self._src[key] = None
        return self._src[key]

    def _header(self, prefix, path, l, c):
        lines = self._lines(prefix, path)
        if lines is None or l - 1 >= len(lines): return None
        text = lines[l-1][c-1:]
        if text.startswith('impl'):
            k = l
            while '{' not in text and k < len(lines) and k < l + 12: text += ' ' + lines[k]; k += 1
            h = parse_impl_header(text)
            if h and h[0].startswith('$'): return ('?', '?')      # impl inside macro_rules! (`impl LanguageChildren for $id`): self type from the signature
            return (self._unalias(h[0]), h[1], 'written', text) if h else None
        m = re.match(r'^(\w+)', text)
        if m and not text.startswith('define_language'):
            # derive attribute: trait is the identifier; the type is the next struct/enum item
            trait = m.group(1)
            for k in range(l - 1, min(len(lines), l + 12)):
                mm = re.search(r'\b(?:struct|enum)\s+(\w+)', lines[k])
                if mm: return mm.group(1), trait
            return None
        # macro invocation (define_language!, bare_language_child!, ...): self type taken from the signature later
        for k in range(l - 1, min(len(lines), l + 6)):
            mm = re.search(r'\benum\s+(\w+)', lines[k])
            if mm: return mm.group(1), '?'
        return ('?', '?')

    def _unalias(self, t):
        n = 0
        while t in self.alias and n < 5: t = self.alias[t]; n += 1
        return t

    def _index(self):
        for name, fn in self.fns.items():
            prefix = ''
            for p, _ in self.crates:
                if p and name.startswith(p): prefix = p
            m = _IMPL_AT.search(name)
            mc = re.match(r'^fn .+?\(_1: (?:&mut |&)?\{closure@([^}]*)\}', fn.sig)
            if mc and '{closure#' in name: self.closure_fn.setdefault((prefix, mc.group(1)), []).append(name)
            if 'promoted[' in name: continue
            if m:
                tail = name[m.end():]
                if not tail.startswith('::') or '::{closure' in tail or '::{' in tail: continue
                method = tail[2:].split('§')[0]
                if '::' in method: continue
                key = (prefix, m.group(0))
                if key not in self.impl_info:
                    self.impl_info[key] = self._header(prefix, m.group(1), int(m.group(2)), int(m.group(3)))
                info = self.impl_info[key]
                if info is None: continue
                ty, trait = info[0], info[1]
                if len(info) > 2: self.handwritten.add(name)
                if ty == '?' or trait == '?':
                    # macro generated: take the self type from the first argument or the return type
                    a0 = fn.argtys[0] if fn.argtys else ''
                    t0 = norm_type(a0).lstrip('&')
                    if t0 in ('', 'Self') or not fn.argtys or not re.match(r'^&?(mut )?\w', a0) or method in ('from_syntax', 'default'):
                        ids = [w for w in re.findall(r'[A-Za-z_]\w*', re.sub(r'(\w+::)+', '', fn.ret)) if w not in ('Option', 'Result', 'Vec', 'Box', 'Self', 'std', 'core')]
                        t0 = ids[0] if ids else t0
                    if ty != '?' and method not in ('fmt',): pass
                    ty = t0 if ty == '?' or True else ty
                    trait = None if trait == '?' else trait
                    self.by_tm.setdefault((ty, method), []).append(('?', name)); self.impls.add((ty, '?'))
                else:
                    self.by_tm.setdefault((ty, method), []).append((trait, name)); self.impls.add((ty, trait))
            else:
                base = name[len(prefix):]
                segs = base.split('::')
                if len(segs) >= 2 and re.match(r'^[A-Z]\w*$', segs[-2]) and re.match(r'^[a-z_]\w*$', segs[-1]):
                    self.defaults[(segs[-2], segs[-1])] = name      # provided trait method, e.g. lang::Language::weak_shape
                self.free.setdefault(segs[-1], []).append(name)

    # ---- queries
    def method(self, ty, method, trait=None):
        """fn name of ty::method (optionally of a given trait); None when unknown, raises when ambiguous"""
        cands = self.by_tm.get((ty, method), []) or self.by_tm.get((self._unalias(ty), method), [])
        if trait is not None:
            c2 = [f for t, f in cands if t == trait]
            if not c2: c2 = [f for t, f in cands if t == '?']
            if len(c2) == 1: return c2[0]
            if len(c2) > 1: raise Unsupported(f'ambiguous {ty} as {trait}::{method}: {c2}')
            d = self.defaults.get((trait, method))
            if d and ((ty, trait) in self.impls or (ty, '?') in self.impls): return d
            return None
        c2 = [f for t, f in cands if t is None] or [f for t, f in cands]
        if len(c2) == 1: return c2[0]
        if len(c2) > 1: raise Unsupported(f'ambiguous {ty}::{method}: {c2}')
        return None

    def M(self, spec):
        """'EGraph::add' or '<SlotMap as Permutation>::compose' or free 'ematch::ematch_all' -> fn name (must exist)"""
        m = re.match(r'^<(.+) as (\w+)>::(\w+)$', spec)
        if m: r = self.method(norm_type(m.group(1)), m.group(3), m.group(2))
        elif '::' not in spec:
            c = self.free.get(spec, []); r = c[0] if len(c) == 1 else None
        else:
            ty, meth = spec.rsplit('::', 1)
            r = self.method(norm_type(ty), meth)
            if r is None and spec in self.fns: r = spec
            if r is None:
                c = [f for f in self.free.get(meth, []) if f.endswith(spec)]
                if len(c) == 1: r = c[0]
        if r is None: raise Unsupported('cannot resolve ' + spec)
        return r

    def impl_env(self, fname, callee):
        """type environment of a method of a generic impl (`impl<L: ..> Trait for Bind<L>`) for a call whose self type is spelled out in the
        callee text (`<Bind<AppliedId> as Trait>::m`): {'L': 'AppliedId'}; None when not applicable"""
        m = _IMPL_AT.search(fname)
        if not m: return None
        pre = ''
        for p, _ in self.crates:
            if p and fname.startswith(p): pre = p
        info = self.impl_info.get((pre, m.group(0)))
        if not info or len(info) < 4: return None
        hdr = info[3]
        mg = re.match(r'^impl\s*<(.*?)>\s', hdr)
        if not mg: return None
        params = [x.split(':')[0].strip() for x in split_top(mg.group(1)) if not x.strip().startswith("'")]
        mt = re.search(r'\bfor\s+([\w:]+)\s*<(.*)>\s*(where|\{|$)', hdr) or re.match(r'^impl\s*<.*?>\s+([\w:]+)\s*<(.*)>\s*(where|\{|$)', hdr)
        if not mt: return None
        formal = [x.strip() for x in split_top(mt.group(2))]
        mc = re.match(r'^<\s*(?:[\w:]+::)?(\w+)\s*<(.*)>\s+as\s', callee)
        if not mc: return None
        actual = [x.strip() for x in split_top(mc.group(2))]
        if len(actual) != len(formal): return None
        env = {}
        for f_, a_ in zip(formal, actual):
            if f_ in params and not re.match(r'^([A-Z]\w?|Self)$', a_): env[f_] = a_
        return env or None

    def closure(self, loc, hint=None):
        """MIR function of the closure written at loc. Macro-generated closures share one location: they are told apart by
        their return type, which the caller's generic arguments (hint = callee text) name; closures of equal type are the same code"""
        cands = []
        for (p, l), fs in self.closure_fn.items():
            if l == loc: cands.extend(fs)
        if len(cands) <= 1: return cands[0] if cands else None
        if hint:
            for f in cands:
                ret = self.fns[f].ret
                inner = ret[len('Option<'):-1] if ret.startswith('Option<') and ret.endswith('>') else ret
                if ('::<' + inner + ',') in hint or ('::<' + inner + '>') in hint: return f
        raise Unsupported('ambiguous closure at ' + loc)

    def promoted(self, path, idx):
        hs = strip_turbofish(path); segs = hs.split('::'); meth = segs[-1]
        suffix = '::' + meth + '::promoted[%d]' % idx
        cands = [k for k in self.fns if k.endswith(suffix)]
        if len(cands) > 1 and len(segs) >= 2:
            ty = segs[-2]
            c2 = []
            for k in cands:
                m = _IMPL_AT.search(k)
                if m:
                    pre = ''
                    for p, _ in self.crates:
                        if p and k.startswith(p): pre = p
                    info = self.impl_info.get((pre, m.group(0)))
                    if info and info[0] == ty: c2.append(k)
                elif k.endswith(hs + '::promoted[%d]' % idx): c2.append(k)
            cands = c2 or cands
        # closures' promoteds: path like a::b::{closure#0}
        if len(cands) > 1:
            c2 = [k for k in cands if strip_turbofish(k).endswith(hs + '::promoted[%d]' % idx)]
            cands = c2 or cands
        return cands[0] if len(cands) == 1 else None

    def _dyn_type(self, v):
        v = dd(v)
        if isinstance(v, Struct): return v.tag
        if isinstance(v, Enum): return getattr(v, 'ty', None)
        if isinstance(v, VecVal): return 'Vec'
        return None

    def resolve(self, callee, base):
        """callee: full call expression text; base: turbofish-stripped. Returns fn name or None."""
        # <T as Trait>::method
        m = re.match(r'^<(.+) as ([\w:]+)(?:<.*>)?>::(\w+)$', base)
        if m:
            ty = norm_type(m.group(1)); trait = m.group(2).rsplit('::', 1)[-1]; meth = m.group(3)
            if re.match(r'^&?[A-Z]\w?$|^&?Self$|^CF$', ty) or ty.lstrip('&') in self.tymap: return ('dyn', trait, meth, ty.lstrip('&'))
            if m.group(1).strip().startswith('dyn '): return ('dyn', trait, meth, None)      # trait object: dispatch on the receiver value's type
            try: return self.method(ty.lstrip('&'), meth, trait)
            except Unsupported: return None
        # path::Type::method  (inherent)
        segs = base.split('::')
        if len(segs) >= 2 and re.match(r'^[A-Z]\w*$', segs[-2]) and '<impl' not in base:
            r = None
            try: r = self.method(segs[-2], segs[-1])
            except Unsupported: r = None
            if r: return r
            d = self.defaults.get((segs[-2], segs[-1]))
            if d: return ('dyn', segs[-2], segs[-1], 'Self')     # Trait::method(self, ..) UFCS
        # module::<impl Type<..>>::method
        m = re.match(r'^(?:[\w:]+::)?<impl (.+)>::(\w+)$', base)
        if m:
            h = parse_impl_header('impl ' + m.group(1))
            if h:
                try: return self.method(h[0], m.group(2), h[1])
                except Unsupported: return None
        # free function by trimmed path
        c = [f for f in self.free.get(segs[-1], []) if f == base or f.endswith('::' + base) or base.endswith('::' + f.split('::', 1)[-1]) or base.endswith(f)]
        if len(c) == 1: return c[0]
        return None

    def resolve_dyn(self, trait, meth, args, param=None):
        """trait call on a type parameter: dispatch on the receiver value's type, else on the configured instantiation"""
        ty = self._dyn_type(args[0]) if args else None
        if ty is not None:
            r = self.method(ty, meth, trait)
            if r: return r
        if param in self.tymap:
            return self.method(self.tymap[param], meth, trait)
        return None
