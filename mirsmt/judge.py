"""Compares observation records (symbolic or native, same format) with the oracle; classifies discrepancies by property."""
import json
from . import oracle as O

# discrepancy kind -> property
KIND_PROP = {
    'unsound_eq': 'C01', 'slot_dropped': 'C01', 'sym_extra': 'C01', 'class_merged': 'C01',
    'missing_eq': 'C02', 'slot_kept': 'C02', 'sym_missing': 'C02', 'class_split': 'C02',
    'panic': 'C08', 'check': 'C08', 'consistency': 'C08', 'not_idempotent': 'C08', 'foreign_slot': 'C08',
    'readd_alloc': 'C09', 'readd_neq': 'C09', 'lookup_none': 'C09', 'lookup_neq': 'C09', 'handle_slots': 'C09',
    'eq_lost': 'C13', 'slots_grew': 'C13', 'progress_direction': 'C13',
    'data_wrong': 'C14', 'data_merge': 'C14',
    'count_mismatch': 'C10',
}

_closure_cache = {}
def closure_for(tmpl, pattern, nsteps):
    """closure of the equations asserted by the first nsteps operations, under the coincidence pattern"""
    key = (tmpl.key(), tuple(pattern), nsteps)
    c = _closure_cache.get(key)
    if c is None:
        terms = []; eqs = []
        def addt(t):
            for s in O.subterms(t):
                if s not in terms: terms.append(s)
        for op in tmpl.ops[:nsteps]:
            if op[0] in ('add', 'readd', 'lookup'): addt(O.apply_pattern(tuple_term(op[1]), pattern))
            elif op[0] == 'union': eqs.append((O.apply_pattern(tuple_term(op[1]), pattern), O.apply_pattern(tuple_term(op[2]), pattern)))
        c = O.Closure(terms, eqs, max(pattern) + 1 if pattern else 0, spare=tmpl_spare(tmpl))
        _closure_cache[key] = c
    return c

def tmpl_spare(tmpl):
    return 3

def tuple_term(t):
    return tuple(tuple_term(x) if isinstance(x, (list, tuple)) else x for x in t)

def handle_terms(tmpl, nsteps):
    """terms owning a handle after nsteps operations, in handle order"""
    out = []
    def rec(t):
        for kind, a in zip(O.SIG[t[0]], t[1:]):
            if kind == 'c': rec(a)
        if t not in out: out.append(t)
    for op in tmpl.ops[:nsteps]:
        if op[0] == 'add': rec(tuple_term(op[1]))
    return out

def judge_record(tmpl, rec):
    """-> list of (kind, step, detail)"""
    out = []
    pat = rec['pattern']
    steps = rec['steps']
    prev = None
    for k, st in enumerate(steps):          # step 0 = after EGraph::new, step k = after ops[k-1]
        C = closure_for(tmpl, pat, k)
        hts = [O.apply_pattern(t, pat) for t in handle_terms(tmpl, k)]
        if len(hts) != len(st['canon']):
            out.append(('panic', k, 'record has %d handles, template has %d' % (len(st['canon']), len(hts)))); break
        n = len(hts)
        # equalities
        for i in range(n):
            for j in range(n):
                want = C.equal(hts[i], hts[j]); got = st['eq'][i][j]
                if got and not want: out.append(('unsound_eq', k, [i, j]))
                if want and not got: out.append(('missing_eq', k, [i, j]))
        # slots
        for i in range(n):
            nr = sorted(str(_first_name_of_block(pat, b)) for b in C.nonredundant(hts[i]))
            c = st['canon'][i]
            if any(v.startswith('x') for v in c['vals']): out.append(('foreign_slot', k, [i, c['vals']]))
            elif sorted(c['vals']) != nr:
                got = set(c['vals']); want = set(nr)
                if want - got: out.append(('slot_dropped', k, [i, sorted(want - got)]))
                if got - want: out.append(('slot_kept', k, [i, sorted(got - want)]))
            if not c['idem']: out.append(('not_idempotent', k, i))
            fn = sorted(str(_first_name_of_block(pat, b)) for b in O.free_names(hts[i]))
            if not set(c['hvals']) <= set(fn): out.append(('handle_slots', k, [i, c['hvals'], fn]))
            g = st['classes'].get(str(c['id']), {}).get('gcount')
            want_g = len(C.symmetries(hts[i]))
            if g is not None and g > want_g: out.append(('sym_extra', k, [i, g, want_g]))
            if g is not None and g < want_g: out.append(('sym_missing', k, [i, g, want_g]))
            gi = st['classes'].get(str(c['id']), {}).get('gcount_int')
            if gi is not None and g is not None and gi != g: out.append(('count_mismatch', k, [i, gi, g]))
        # class structure
        for i in range(n):
            for j in range(i + 1, n):
                same = st['canon'][i]['id'] == st['canon'][j]['id']; want = C.same_class(hts[i], hts[j])
                if same and not want: out.append(('class_merged', k, [i, j]))
                if want and not same: out.append(('class_split', k, [i, j]))
        # consistency
        chk = st.get('check')
        if chk:
            if chk.get('check') != 'ok': out.append(('check', k, chk.get('check')))
            if chk.get('consistency'): out.append(('consistency', k, chk['consistency']))
        # re-insertion
        ra = st.get('readd')
        if ra:
            if ra['alloc_delta'] != 0: out.append(('readd_alloc', k, ra['alloc_delta']))
            if ra.get('eq_old') is False: out.append(('readd_neq', k, None))
            if not ra['lookup_some']: out.append(('lookup_none', k, None))
            if ra.get('lookup_eq_add') is False: out.append(('lookup_neq', k, None))
        # analysis data
        if 'data' in next(iter(st['classes'].values()), {}):
            for i in range(n):
                d = st['classes'].get(str(st['canon'][i]['id']), {}).get('data')
                if tmpl.analysis == 'MinSize':
                    want = C.min_size(hts[i])
                    if d != want: out.append(('data_wrong', k, [i, d, want]))
        # monotonicity against the previous step
        if prev is not None:
            pn = len(prev['canon'])
            for i in range(pn):
                for j in range(pn):
                    if prev['eq'][i][j] and not st['eq'][i][j]: out.append(('eq_lost', k, [i, j]))
                if st['canon'][i]['nslots'] > prev['canon'][i]['nslots']: out.append(('slots_grew', k, i))
            a, b = prev['progress'], st['progress']
            if not progress_ok(a, b): out.append(('progress_direction', k, [a, b]))
        prev = st
    if rec.get('panic'):
        p = rec['panic']
        out.append(('panic', len(steps), (p['msg'] if isinstance(p, dict) else p)))
    return out

def progress_ok(a, b):
    """documented direction: classes allocated never decrease; with that fixed, live classes never increase;
    then slot total never increases; then symmetries never decrease"""
    if b[0] < a[0]: return False
    if b[0] > a[0]: return True
    if b[1] > a[1]: return False
    if b[1] < a[1]: return True
    if b[2] > a[2]: return False
    if b[2] < a[2]: return True
    return b[3] >= a[3]

def _first_name_of_block(pat, b):
    return list(pat).index(b)

def observable_view(rec):
    """the part of a record that must not depend on how names sort (C11) - ids left out, class relation kept"""
    out = []
    for st in rec['steps']:
        ids = [c['id'] for c in st['canon']]
        rel = [[ids[i] == ids[j] for j in range(len(ids))] for i in range(len(ids))]
        out.append({'eq': st['eq'], 'nslots': [c['nslots'] for c in st['canon']], 'vals': [c['vals'] for c in st['canon']],
                    'gcount': [st['classes'].get(str(c['id']), {}).get('gcount') for c in st['canon']],
                    'data': [st['classes'].get(str(c['id']), {}).get('data') for c in st['canon']],
                    'live': len(st['live']), 'nodes': st['nodes'], 'progress': st['progress'], 'same_class': rel,
                    'union_ret': st.get('union_ret'), 'check': (st.get('check') or {}).get('check')})
    return {'steps': out, 'panic': bool(rec.get('panic'))}
