"""Compares observation records (symbolic or native, same format) with the oracle; classifies discrepancies by property."""
import json
from . import oracle as O

# discrepancy kind -> property
KIND_PROP = {
    'unsound_eq': 'C01', 'slot_dropped': 'C01', 'sym_extra': 'C01', 'class_merged': 'C01',
    'missing_eq': 'C02', 'slot_kept': 'C02', 'sym_missing': 'C02', 'class_split': 'C02',
    'panic': 'C08', 'check': 'C08', 'consistency': 'C08', 'not_idempotent': 'C08', 'foreign_slot': 'C08',
    'readd_alloc': 'C09', 'readd_neq': 'C09', 'lookup_none': 'C09', 'lookup_neq': 'C09', 'handle_slots': 'C09', 'ret_slots': 'C09', 'new_handle_slots': 'C09',
    'eq_lost': 'C13', 'slots_grew': 'C13', 'progress_direction': 'C13',
    'data_wrong': 'C14', 'data_not_fixpoint': 'C14', 'analysis_panic': 'C14', 'data_stale_handle': 'C14', 'const_not_propagated': 'C14', 'const_unsound': 'C14', 'analysis_check': 'C14',
    'count_mismatch': 'C10',
    'rw_missing_eq': 'C04', 'probe_missing': 'C04', 'rw_unsound_eq': 'C05', 'unbound_var': 'C05', 'match_not_represented': 'C05', 'match_mutated': 'C05',
    'mm_unbound_var': 'C05', 'mm_equation_fails': 'C05', 'mm_mutated': 'C05',
    'false_but_changed': 'C15', 'false_but_new': 'C15',
    'model_members_disagree': 'C03', 'model_redundant_slot_matters': 'C03', 'model_term_changed': 'C03', 'model_ill_scoped': 'C03', 'model_handle_ill_scoped': 'C03',
    'model_no_wellfounded_node': 'C03', 'model_node_not_evaluated': 'C03', 'model_panic': 'C03',
    'explain_panic': 'C07', 'proof_bad_step': 'C07', 'proof_bad_leaf': 'C07', 'proof_wrong_conclusion': 'C07', 'proof_checker_error': 'C07',
    'extract_panic': 'C06', 'extract_not_member': 'C06', 'extract_cost_mismatch': 'C06', 'extract_not_cheapest': 'C06', 'extract_foreign_slot': 'C06',
}

_closure_cache = {}
_state_cache = {}
def oracle_state(tmpl, pattern, nsteps):
    """(terms, equations, rewrite log) after the first nsteps operations under the coincidence pattern; rewrite ops are applied on the
    oracle side: all rules are matched against the closure of the pre-state, then every instance equation is added"""
    key = (tmpl.key(), tuple(pattern), nsteps)
    st = _state_cache.get(key)
    if st is not None: return st
    if nsteps == 0: st = ([], [], [])
    else:
        terms, eqs, log = oracle_state(tmpl, pattern, nsteps - 1)
        terms, eqs, log = list(terms), list(eqs), list(log)
        op = tmpl.ops[nsteps - 1]
        def addt(t):
            for s in O.subterms(t):
                if s not in terms: terms.append(s)
        if op[0] in ('add', 'readd'): addt(O.apply_pattern(tuple_term(op[1]), pattern))
        elif op[0] == 'union': eqs.append((O.apply_pattern(tuple_term(op[1]), pattern), O.apply_pattern(tuple_term(op[2]), pattern)))
        elif op[0] == 'rewrite':
            C = _mk_closure(tmpl, terms, eqs, pattern)
            new = []
            for r in op[1]:
                lhs, rhs = O.apply_pattern(tuple_term(r[2]), pattern), O.apply_pattern(tuple_term(r[3]), pattern)
                new.extend(O.rule_instances(C, terms, lhs, rhs))
            already = all(O.canon(b) in C.parent and C.equal(a, b) for a, b in new)
            log.append({'step': nsteps, 'instances': len(new), 'nothing_new': already})
            for a, b in new:
                addt(b); eqs.append((a, b))
        st = (terms, eqs, log)
    _state_cache[key] = st
    return st

def closure_for(tmpl, pattern, nsteps):
    """closure of the equations asserted by the first nsteps operations, under the coincidence pattern"""
    key = (tmpl.key(), tuple(pattern), nsteps)
    c = _closure_cache.get(key)
    if c is None:
        terms, eqs, _ = oracle_state(tmpl, pattern, nsteps)
        c = _mk_closure(tmpl, terms, eqs, pattern)
        _closure_cache[key] = c
    return c

def _mk_closure(tmpl, terms, eqs, pattern):
    if tmpl.analysis == 'ConstProp':      # the modify hook of constant folding adds (num v) to every class with constant value v: part of the expected equivalence
        return O.const_closure(terms, eqs, n_names(terms, eqs, pattern), spare=tmpl_spare(tmpl))
    return O.Closure(terms, eqs, n_names(terms, eqs, pattern), spare=tmpl_spare(tmpl))

def n_names(terms, eqs, pattern):
    m = max(pattern) if pattern else -1
    for t in list(terms) + [x for e in eqs for x in e]:
        for n in O.all_names(t):
            if isinstance(n, int) and n > m: m = n
    return m + 1

def tmpl_spare(tmpl):
    return 3

def tuple_term(t):
    if isinstance(t, str): return t
    return tuple(tuple_term(x) if isinstance(x, (list, tuple)) else x for x in t)

def handle_terms(tmpl, nsteps):
    """terms owning a handle after nsteps operations, in handle order"""
    out = []
    def rec(t):
        for kind, a in zip(O.SIG[t[0]], t[1:]):
            if kind == 'c': rec(a)
        if t not in out: out.append(t)
    for op in tmpl.ops[:nsteps]:
        if op[0] in ('add', 'probe'): rec(tuple_term(op[1])) if op[0] == 'add' else (out.append(tuple_term(op[1])) if tuple_term(op[1]) not in out else None)
    return out

def judge_model_record(tmpl, rec):
    """C03: every dumped e-graph of the record is evaluated in the finite model (mirsmt/model_eval.py): all e-nodes of a class denote the
    same function of the class slots, further slots of a node do not influence its value, and every inserted term still denotes what
    its class denotes.  -> list of (kind, step, detail)"""
    from . import model_eval as ME
    out = []
    pat = rec['pattern']
    if rec.get('panic'): out.append(('model_panic', len(rec['steps']), rec['panic'] if isinstance(rec['panic'], str) else rec['panic'].get('msg')))
    for k, st in enumerate(rec['steps']):
        if 'dump' not in st: continue
        tables, issues = ME.eval_graph(st['dump'])
        for kind, d in issues: out.append((kind, k, d))
        hts = [O.apply_pattern(t, pat) for t in handle_terms(tmpl, k)]
        if len(hts) != len(st['canon']): continue
        for i, ht in enumerate(hts):
            c = st['canon'][i]
            if c is None: continue
            r = ME.check_handle(tables, st['dump'], ht, lambda b: str(_first_name_of_block(pat, b)), c)
            if r: out.append((r[0], k, dict(r[1], handle=i, term=ht)))
    return out

def judge_record(tmpl, rec):
    """-> list of (kind, step, detail)"""
    out = []
    pat = rec['pattern']
    steps = rec['steps']
    prev = None
    rw_from = next((i + 1 for i, op in enumerate(tmpl.ops) if op[0] == 'rewrite'), None)
    for k, st in enumerate(steps):          # step 0 = after EGraph::new, step k = after ops[k-1]
        C = closure_for(tmpl, pat, k)
        after_rw = rw_from is not None and k >= rw_from
        hts = [O.apply_pattern(t, pat) for t in handle_terms(tmpl, k)]
        if len(hts) != len(st['canon']):
            out.append(('panic', k, 'record has %d handles, template has %d' % (len(st['canon']), len(hts)))); break
        n = len(hts); prev_n = len(handle_terms(tmpl, k - 1)) if k >= 1 else 0
        known = [st['canon'][i] is not None and O.canon(hts[i]) in C.parent for i in range(n)]
        for i in range(n):
            if st['canon'][i] is None and O.canon(hts[i]) in C.parent: out.append(('probe_missing', k, [i, list(map(str, hts[i]))]))
        # equalities
        for i in range(n):
            for j in range(n):
                if not (known[i] and known[j]): continue
                want = C.equal(hts[i], hts[j]); got = st['eq'][i][j]
                if got and not want: out.append(('rw_unsound_eq' if after_rw else 'unsound_eq', k, [i, j]))
                if want and not got: out.append(('rw_missing_eq' if after_rw else 'missing_eq', k, [i, j]))
        # slots
        for i in range(n):
            if not known[i]: continue
            nr = sorted(str(_first_name_of_block(pat, b)) for b in C.nonredundant(hts[i]))
            c = st['canon'][i]
            if any(v.startswith('x') for v in c['vals']): out.append(('foreign_slot', k, [i, c['vals']]))
            elif sorted(c['vals']) != nr:
                got = set(c['vals']); want = set(nr)
                if want - got: out.append(('slot_dropped', k, [i, sorted(want - got)]))
                if got - want: out.append(('slot_kept', k, [i, sorted(got - want)]))
            if not c['idem']: out.append(('not_idempotent', k, i))
            fn = sorted(str(_first_name_of_block(pat, b)) for b in O.free_names(hts[i]))
            if not set(c['hvals']) <= set(fn): out.append(('handle_slots', k, [i, c['hvals'], fn]))
            if i >= prev_n and tmpl.ops[k - 1][0] == 'add' and k >= 1 and sorted(c['hvals']) != nr:      # handle returned by this very step
                out.append(('new_handle_slots', k, [i, c['hvals'], nr]))
            g = st['classes'].get(str(c['id']), {}).get('gcount')
            want_g = len(C.symmetries(hts[i]))
            if g is not None and g > want_g: out.append(('sym_extra', k, [i, g, want_g]))
            if g is not None and g < want_g: out.append(('sym_missing', k, [i, g, want_g]))
            gi = st['classes'].get(str(c['id']), {}).get('gcount_int')
            if gi is not None and g is not None and gi != g: out.append(('count_mismatch', k, [i, gi, g]))
        # class structure
        for i in range(n):
            for j in range(i + 1, n):
                if not (known[i] and known[j]): continue
                same = st['canon'][i]['id'] == st['canon'][j]['id']; want = C.same_class(hts[i], hts[j])
                if same and not want: out.append(('rw_unsound_eq' if after_rw else 'class_merged', k, [i, j]))
                if want and not same: out.append(('rw_missing_eq' if after_rw else 'class_split', k, [i, j]))
        # matching
        em = st.get('ematch')
        if em:
            want_vars = sorted(v[1:] for v in O.pat_vars(tuple_term(tmpl.ops[k - 1][1])))
            if not em['unchanged']: out.append(('match_mutated', k, None))
            for mt in em['matches']:
                if sorted(mt['bound']) != want_vars: out.append(('unbound_var', k, [mt['bound'], want_vars]))
                if not mt['found']: out.append(('match_not_represented', k, mt['binds']))
        mm = st.get('mmatch')
        if mm:
            eqs_ = tmpl.ops[k - 1][1]; want_vars = set()
            for v, npat in eqs_:
                want_vars.add(v[1:]); want_vars |= {x[1:] for x in O.pat_vars(tuple_term(npat))}
            if not mm['unchanged']: out.append(('mm_mutated', k, None))
            for mt in mm['matches']:
                if set(mt['bound']) != want_vars: out.append(('mm_unbound_var', k, [mt['bound'], sorted(want_vars)]))
                if not all(mt['equations_hold']): out.append(('mm_equation_fails', k, mt['equations_hold']))
        # extraction
        xt = st.get('extract')
        if xt:
            qterm = O.apply_pattern(tuple_term(tmpl.ops[k - 1][1]), pat)
            def tup(t): return tuple(tup(a) if isinstance(a, list) else a for a in t)
            def names_of(t):
                out = []
                for a in t[1:]:
                    if isinstance(a, list): out += names_of(a)
                    else: out.append(a)
                return out
            if not xt['lookup_some'] or xt['lookup_eq'] is False: out.append(('extract_not_member', k, xt['term']))
            # recompute the cost of the returned term independently
            def cost_of(t):
                w = 1 if O.WEIGHTS[xt['cf']] is None else O.WEIGHTS[xt['cf']][t[0]]
                return w + sum(cost_of(a) for a in t[1:] if isinstance(a, list))
            if cost_of(xt['term']) != xt['cost']: out.append(('extract_cost_mismatch', k, [xt['cost'], cost_of(xt['term'])]))
            best = O.min_costs(C, xt['cf']).get(C.cls(qterm))
            if best is not None and xt['cost'] != best: out.append(('extract_not_cheapest', k, [xt['cost'], best]))
            # free slots: arguments of the query or brand-new; bound names are ignored by taking only names that are not binders
            fn = set(str(_first_name_of_block(pat, b)) for b in O.free_names(qterm))
            def free_of(t, bound=()):
                sig = O.SIG[t[0]]; res = []; b = list(bound)
                for kind, a in zip(sig, t[1:]):
                    if kind == 'b': b.append(a)
                    elif kind == 's':
                        if a not in b: res.append(a)
                    else: res += free_of(a, b)
                return res
            bad = [n for n in free_of(xt['term']) if n != 'fresh' and n not in fn]
            if bad: out.append(('extract_foreign_slot', k, bad))
            if xt.get('free_term') is not None:
                # the free function extract::<L, N, CF>: a member, as cheap as the oracle minimum, no foreign slots
                if not xt['free_lookup_some'] or xt['free_lookup_eq'] is False: out.append(('extract_not_member', k, ['free function', xt['free_term']]))
                if best is not None and cost_of(xt['free_term']) != best: out.append(('extract_not_cheapest', k, ['free function', cost_of(xt['free_term']), best]))
                bad = [n for n in free_of(xt['free_term']) if n != 'fresh' and n not in fn]
                if bad: out.append(('extract_foreign_slot', k, ['free function'] + bad))
        # explanations: the dumped proof DAG is re-checked node by node on terms (mirsmt/proofcheck.py)
        xp = st.get('explain')
        if xp:
            from . import proofcheck as PC
            for kind, detail in PC.check_proof(xp, explain_query(tmpl, pat, k), asserted_equations(tmpl, pat, k)): out.append((kind, k, detail))
        # saturation flag
        if st.get('rewrite_ret') is False and prev is not None:
            pn = len(prev['canon'])
            same = (st['live'] == prev['live'] and st['nodes'] == prev['nodes'] and st['progress'] == prev['progress'] and
                    all(st['eq'][i][j] == prev['eq'][i][j] for i in range(pn) for j in range(pn)) and
                    all((st['canon'][i] or {}).get('nslots') == (prev['canon'][i] or {}).get('nslots') for i in range(pn)) and
                    all(st['classes'].get(c, {}).get('gcount') == v.get('gcount') for c, v in prev['classes'].items()))
            if not same: out.append(('false_but_changed', k, [prev['progress'], st['progress']]))
            log = [e for e in oracle_state(tmpl, pat, k)[2] if e['step'] == k]
            if log and not log[0]['nothing_new']: out.append(('false_but_new', k, log[0]))
        # consistency
        chk = st.get('check')
        if chk:
            if chk.get('check') != 'ok': out.append(('check', k, chk.get('check')))
            if chk.get('consistency'): out.append(('consistency', k, chk['consistency']))
        # re-insertion
        ra = st.get('readd')
        if ra:
            if ra['alloc_delta'] != 0: out.append(('readd_alloc', k, ra['alloc_delta']))
            if ra.get('eq_old') is False: out.append(('readd_neq', k, None))
            if not ra['lookup_some']: out.append(('lookup_none', k, None))
            if ra.get('lookup_eq_add') is False: out.append(('lookup_neq', k, None))
            # the returned invocation itself (not its canonical form): free slots minus those proven redundant at this point
            rt = O.apply_pattern(tuple_term(tmpl.ops[k - 1][1]), pat)
            if O.canon(rt) in C.parent:
                want = sorted(str(_first_name_of_block(pat, b)) for b in C.nonredundant(rt))
                for kk in ('ret_vals', 'lk_vals'):
                    if ra.get(kk) is not None and sorted(ra[kk]) != want: out.append(('ret_slots', k, [kk, ra[kk], want]))
        # analysis data
        if 'data' in next(iter(st['classes'].values()), {}):
            want_all = C.constval if tmpl.analysis == 'ConstProp' else O.min_costs(C, 'AstSize' if tmpl.analysis == 'MinSize' else 'Depth')
            for i in range(n):
                if not known[i]: continue
                cl = st['classes'].get(str(st['canon'][i]['id']), {})
                d = cl.get('data'); want = want_all.get(C.cls(hts[i]))
                if d == 'none': d = None
                if d != want: out.append(('data_wrong', k, [i, d, want]))
                hd = st['canon'][i].get('hdata', d)
                if (None if hd == 'none' else hd) != d: out.append(('data_stale_handle', k, [i, hd, d]))
                if cl.get('data_fix') is not None and (None if cl.get('data_fix') == 'none' else cl.get('data_fix')) != d: out.append(('data_not_fixpoint', k, [i, d, cl.get('data_fix')]))
        # monotonicity against the previous step
        if prev is not None:
            pn = len(prev['canon'])
            for i in range(pn):
                for j in range(pn):
                    if prev['eq'][i][j] and not st['eq'][i][j]: out.append(('eq_lost', k, [i, j]))
                if st['canon'][i] is not None and prev['canon'][i] is not None and st['canon'][i]['nslots'] > prev['canon'][i]['nslots']: out.append(('slots_grew', k, i))
            a, b = prev['progress'], st['progress']
            if not progress_ok(a, b): out.append(('progress_direction', k, [a, b]))
        prev = st
    if rec.get('panic'):
        p = rec['panic']
        failing = tmpl.ops[len(steps) - 1] if 0 < len(steps) <= len(tmpl.ops) else None
        if failing is not None and failing[0] == 'extract': out.append(('extract_panic', len(steps), (p['msg'] if isinstance(p, dict) else p)))
        if failing is not None and failing[0] == 'explain': out.append(('explain_panic', len(steps), (p['msg'] if isinstance(p, dict) else p)))
        out.append(('panic', len(steps), (p['msg'] if isinstance(p, dict) else p)))
    if tmpl.analysis != '()':
        # with an analysis attached the history is C14's: a panic, a failed consistency check, and (for constant folding, whose modify hook changes
        # the equivalence itself) every equality the folded constants imply or forbid
        remap = {'panic': 'analysis_panic', 'check': 'analysis_check', 'consistency': 'analysis_check'}
        if tmpl.analysis == 'ConstProp':
            remap.update({'missing_eq': 'const_not_propagated', 'class_split': 'const_not_propagated', 'probe_missing': 'const_not_propagated', 'slot_kept': 'const_not_propagated',
                          'unsound_eq': 'const_unsound', 'class_merged': 'const_unsound', 'slot_dropped': 'const_unsound'})
        out = out + [(remap[k], s_, d) for k, s_, d in out if k in remap]
    return out

def label_term(t, pat):
    """template term -> term over the slot labels used in records (index of the first name of the coincidence block)"""
    op = t[0]; out = [op]
    for kind, a in zip(O.SIG[op], t[1:]):
        out.append(str(_first_name_of_block(pat, pat[a])) if kind in 'sb' else (a if kind == 'p' else label_term(a, pat)))
    return tuple(out)
def explain_query(tmpl, pat, k):
    op = tmpl.ops[k - 1]; return (label_term(tuple_term(op[1]), pat), label_term(tuple_term(op[2]), pat))
def asserted_equations(tmpl, pat, k):
    out = [(label_term(tuple_term(op[1]), pat), label_term(tuple_term(op[2]), pat), op[3] if len(op) > 3 else None) for op in tmpl.ops[:k] if op[0] == 'union']
    for op in tmpl.ops[:k]:
        if op[0] == 'rewrite':       # rule applications are leaves justified by the rule's name
            for r in op[1]:
                if r[0] == 'rule': out.append((('__rule__', label_pat(tuple_term(r[2]), pat)), label_pat(tuple_term(r[3]), pat), r[1]))
    return out
def label_pat(p, pat):
    if isinstance(p, str): return p
    return tuple([p[0]] + [(str(_first_name_of_block(pat, pat[a])) if kind in 'sb' else (a if kind == 'p' else label_pat(a, pat))) for kind, a in zip(O.SIG[p[0]], p[1:])])

def progress_ok(a, b):
    """documented direction: classes allocated never decrease; with that fixed, live classes never increase;
    then slot total never increases; then symmetries never decrease"""
    if b[0] < a[0]: return False
    if b[0] > a[0]: return True
    if b[1] > a[1]: return False
    if b[1] < a[1]: return True
    if b[2] > a[2]: return False
    if b[2] < a[2]: return True
    return b[3] >= a[3]

def _first_name_of_block(pat, b):
    return list(pat).index(b)

def _em_view(em):
    if not em: return None
    def dh(h): return None if h is None else sorted(h['vals'])
    return {'unchanged': em['unchanged'], 'matches': sorted(json.dumps({'bound': m['bound'], 'found': m['found'], 'inst': dh(m['inst']), 'binds': {k: dh(v) for k, v in m['binds'].items()}}, sort_keys=True) for m in em['matches'])}

def observable_view(rec):
    """the part of a record that must not depend on how names sort (C11) - ids left out, class relation kept"""
    out = []
    for st in rec['steps']:
        ids = [(c or {}).get('id') for c in st['canon']]
        rel = [[ids[i] == ids[j] for j in range(len(ids))] for i in range(len(ids))]
        out.append({'eq': st['eq'], 'nslots': [(c or {}).get('nslots') for c in st['canon']], 'vals': [(c or {}).get('vals') for c in st['canon']],
                    'gcount': [st['classes'].get(str((c or {}).get('id')), {}).get('gcount') for c in st['canon']],
                    'data': [st['classes'].get(str((c or {}).get('id')), {}).get('data') for c in st['canon']],
                    'ematch': _em_view(st.get('ematch')), 'mmatch': st.get('mmatch'), 'probe': st.get('probe'), 'rewrite_ret': st.get('rewrite_ret'), 'extract_cost': (st.get('extract') or {}).get('cost'),
                    'live': len(st['live']), 'nodes': st['nodes'], 'progress': st['progress'], 'same_class': rel,
                    'union_ret': st.get('union_ret'), 'check': (st.get('check') or {}).get('check')})
    return {'steps': out, 'panic': bool(rec.get('panic'))}
