"""E2: symbolic executor for rustc text MIR (-Zunpretty=mir), z3 as decider.

Data shape is concrete, content is symbolic: integers / slots are z3 bit-vectors, aggregates are
Python objects, references are (container, key) pairs.  Every data-dependent branch asks the solver
which sides are feasible and forks; paths are explored by re-execution from a decision prefix.

Statements are parsed once per distinct text into Python closures (see _c_* functions).
Anything not understood raises Unsupported -> the calling check exits 2 (inconclusive).
"""
import re, sys, time
import z3

# ------------------------------------------------------------------ exceptions
class Panic(Exception):
    def __init__(self, msg, where=None):
        Exception.__init__(self, msg); self.msg = msg; self.where = where
class Infeasible(Exception): pass
class Unsupported(Exception): pass
class Budget(Exception): pass

# ------------------------------------------------------------------ values
class Struct:  # structs, tuples, arrays, closures
    __slots__ = ('f', 'tag')
    def __init__(self, fields, tag=None): self.f, self.tag = dict(fields), tag
    def __repr__(self): return f"Struct<{self.tag or ''}>{self.f}"
class Enum:
    __slots__ = ('disc', 'payload', 'ty')
    def __init__(self, disc, payload=None, ty=None): self.disc, self.payload, self.ty = disc, (payload if payload is not None else Struct({})), ty
    def __repr__(self): return f"Enum<{self.ty or ''}>#{self.disc}{self.payload.f}"
class MultiPayload:
    """payload of an enum value whose variant is symbolic: one payload per variant name (read-only)"""
    __slots__ = ('variants',)
    def __init__(self, variants): self.variants = variants
class Ref:
    __slots__ = ('c', 'k')
    def __init__(self, c, k): self.c, self.k = c, k
    def __repr__(self): return f"Ref({type(self.c).__name__},{self.k})"
class Unit:
    def __repr__(self): return 'Unit'
_UNIT = Unit()
class PyStr(str): pass
class SliceRef:
    __slots__ = ('lst', 'start', 'end')
    def __init__(self, lst, start, end): self.lst, self.start, self.end = lst, start, end
    def __len__(self): return self.end - self.start
    def items(self): return self.lst[self.start:self.end]
class VecVal:
    __slots__ = ('items',)
    def __init__(self, items=()): self.items = list(items)
    def __repr__(self): return f"Vec{self.items}"
class SVec(VecVal):   # SmallVec model (sequence; capacity asserted by the model)
    __slots__ = ('cap',)
class VS(VecVal):     # VecSet model: sorted duplicate-free list
    __slots__ = ()
class HM:             # HashMap / VecMap model: association list [[k, v]], insertion order
    __slots__ = ('items',)
    def __init__(self, items=()): self.items = [list(x) for x in items]
class HS(VecVal):     # HashSet model: list, insertion order
    __slots__ = ()
class Opaque:
    __slots__ = ('what',)
    def __init__(self, what): self.what = what
    def __repr__(self): return f"Opaque{self.what!r}"
class TransparentSelf:
    def __init__(self, o): self.o = o
    def __getitem__(self, k): return self.o
    def __setitem__(self, k, v): pass
class BoxCell:
    """content cell that ignores wrapper-field projections (MaybeUninit/ManuallyDrop/...)"""
    def __init__(self): self.content = None
    @property
    def f(self): return self
    def __getitem__(self, k): return self
    def __setitem__(self, k, v): self.content = v
class BoxRef(Ref):
    """Box<T>: a reference whose Unique/NonNull field projections return itself"""
    __slots__ = ()
    @property
    def f(self): return TransparentSelf(self)
def boxed(x): return BoxRef({'b': x}, 'b')
def new_uninit_box():
    r = BoxRef({'v': BoxCell()}, 'v'); return r

def some(x): return Enum(1, Struct({0: x}))
def none(): return Enum(0, Struct({}))
def ok(x): return Enum(0, Struct({0: x}))
def err(x): return Enum(1, Struct({0: x}))
def U64(i): return z3.BitVecVal(i, 64)
def U32(i): return z3.BitVecVal(i, 32)
def slot(bv): return Struct({0: bv}, 'Slot')
def tup(*xs): return Struct({i: x for i, x in enumerate(xs)}, 'tuple')
def deref(r):
    return r.c[r.k]
def dd(x):
    while isinstance(x, Ref): x = x.c[x.k]
    return x
def conc(v):
    """concrete python int of a z3 value (after simplification); raises Unsupported when symbolic"""
    if isinstance(v, int): return v
    s = z3.simplify(v)
    if z3.is_bv_value(s): return s.as_long()
    raise Unsupported('symbolic value where a concrete one is needed: ' + str(s)[:80])

def cp(v):
    """structural copy (Clone / move of aggregates)"""
    if isinstance(v, Struct): return Struct({k: cp(x) for k, x in v.f.items()}, v.tag)
    if isinstance(v, Enum): return Enum(v.disc, cp(v.payload), v.ty)
    if isinstance(v, HM): return HM([[cp(k), cp(x)] for k, x in v.items])
    if isinstance(v, VecVal): return type(v)([cp(x) for x in v.items])
    if isinstance(v, list): return [cp(x) for x in v]
    return v

EQ_FIRST_FIELD = ('ProvenPerm', 'ProvenNode', 'ProvenEqRaw')      # src/explain/wrapper/perm.rs, node.rs, src/explain/proof.rs: eq/hash look at `elem` / `eq` only
def val_eq(a, b):
    """structural equality as a z3 Bool"""
    a, b = dd(a), dd(b)
    if z3.is_expr(a) or z3.is_expr(b):
        if isinstance(a, int): a = z3.BitVecVal(a, b.size())
        if isinstance(b, int): b = z3.BitVecVal(b, a.size())
        return a == b
    if isinstance(a, int) and isinstance(b, int): return z3.BoolVal(a == b)
    if isinstance(a, Struct) and isinstance(b, Struct):
        if a.tag in EQ_FIRST_FIELD and b.tag == a.tag: return val_eq(a.f[0], b.f[0])      # the crate's hand-written PartialEq/Hash: the wrapped element only, never the proof
        if set(a.f) != set(b.f): return z3.BoolVal(False)
        return z3.And(*[val_eq(a.f[k], b.f[k]) for k in a.f]) if a.f else z3.BoolVal(True)
    if isinstance(a, Enum) and isinstance(b, Enum):
        d = z3.simplify(val_eq(a.disc, b.disc))
        if z3.is_false(d): return d
        return z3.And(d, val_eq(a.payload, b.payload))
    if isinstance(a, HM) or isinstance(b, HM) or isinstance(a, HS) or isinstance(b, HS):
        raise Unsupported('val_eq on hash containers (use the container model)')
    if isinstance(a, VecVal) and isinstance(b, VecVal):
        if len(a.items) != len(b.items): return z3.BoolVal(False)
        return z3.And(*[val_eq(x, y) for x, y in zip(a.items, b.items)]) if a.items else z3.BoolVal(True)
    if isinstance(a, SliceRef) and isinstance(b, SliceRef):
        xa, xb = a.items(), b.items()
        if len(xa) != len(xb): return z3.BoolVal(False)
        return z3.And(*[val_eq(x, y) for x, y in zip(xa, xb)]) if xa else z3.BoolVal(True)
    if isinstance(a, str) and isinstance(b, str): return z3.BoolVal(str(a) == str(b))
    if isinstance(a, Unit) and isinstance(b, Unit): return z3.BoolVal(True)
    if isinstance(a, Opaque) and isinstance(b, Opaque): return z3.BoolVal(a.what == b.what)
    raise Unsupported(f'val_eq? {type(a).__name__} {type(b).__name__}')

# ------------------------------------------------------------------ text helpers
def split_top(s, sep=','):
    out, depth, cur, instr = [], 0, [], False
    i, n = 0, len(s)
    while i < n:
        c = s[i]
        if instr:
            cur.append(c)
            if c == '\\': cur.append(s[i+1]); i += 1
            elif c == '"': instr = False
        elif c == '"': instr = True; cur.append(c)
        elif c == "'" and i + 2 < n and s[i+2] == "'": cur.append(s[i:i+3]); i += 2
        elif c == "'" and i + 3 < n and s[i+1] == '\\' and s[i+3] == "'": cur.append(s[i:i+4]); i += 3
        elif c in '([{<': depth += 1; cur.append(c)
        elif c in ')]}>':
            if c == '>' and i > 0 and s[i-1] in '-=': cur.append(c)
            else: depth -= 1; cur.append(c)
        elif c == sep and depth == 0: out.append(''.join(cur).strip()); cur = []
        else: cur.append(c)
        i += 1
    t = ''.join(cur).strip()
    if t: out.append(t)
    return out

def strip_turbofish(c):
    """remove every `::<...>` group (balanced); `::<impl Type>` path segments are kept unless trailing"""
    out, i = [], 0
    while i < len(c):
        if c.startswith('::<', i) and i > 0:
            d, j = 0, i + 2
            while j < len(c):
                if c[j] == '<': d += 1
                elif c[j] == '>' and c[j-1] not in '-=':
                    d -= 1
                    if d == 0: break
                j += 1
            if c.startswith('::<impl ', i) and j < len(c) - 1:
                out.append(c[i:j + 1])
            i = j + 1
        else: out.append(c[i]); i += 1
    return ''.join(out)

def _wraps(s):
    """s is '(' ... ')' with the parentheses matching each other"""
    if not (s.startswith('(') and s.endswith(')')): return False
    d = 0
    for j, c in enumerate(s):
        if c == '(': d += 1
        elif c == ')':
            d -= 1
            if d == 0 and j != len(s) - 1: return False
    return True

# ------------------------------------------------------------------ MIR text -> functions
class Fn:
    __slots__ = ('name', 'nargs', 'blocks', 'sig', 'compiled', 'argtys', 'ret')
    def __init__(self, name, nargs): self.name, self.nargs, self.blocks, self.compiled = name, nargs, {}, {}

_FN_RE = re.compile(r'^fn (.+?)\((.*)\) -> (.+) \{$')
_FN0_RE = re.compile(r'^fn (.+?)\((.*)\) \{$')
_CONST_RE = re.compile(r'^const (.+?promoted\[\d+\])(): (.+) = \{$')
_STATIC_RE = re.compile(r'^(?:static|const) (.+?): (.+) = \{$')
_NAMEDCONST_RE = re.compile(r'^(?:const|static) ([\w:<>{}#@ ,\.\[\]]+?)(): (.+) = \{$')
_SIMPLECONST_RE = re.compile(r'^const (.+?): ([^=]+?) = (const .+);$')
_BB_RE = re.compile(r'^(bb\d+)(?: \(cleanup\))?: \{$')

def parse_mir(text, prefix=''):
    fns = {}
    lines = text.split('\n')
    i, n = 0, len(lines)
    # one macro-generated impl per primitive type (bare_language_child!) shares a single MIR name: such functions are told apart by their
    # signature; every one of them gets the suffix '§<signature types>' (the resolver strips it and takes the self type from the signature)
    seen_names = {}
    for L in lines:
        if L.startswith('fn '):
            m_ = _FN_RE.match(L) or _FN0_RE.match(L)
            if m_: seen_names[m_.group(1)] = seen_names.get(m_.group(1), 0) + 1
    dup = {k for k, v in seen_names.items() if v > 1 and '<impl at ' in k and '{closure' not in k and 'promoted[' not in k}
    while i < n:
        L = lines[i]
        ms = _SIMPLECONST_RE.match(L)
        if ms:
            f = Fn(prefix + ms.group(1), 0); f.sig = L; f.argtys = []; f.ret = ms.group(2); f.blocks['bb0'] = ['_0 = ' + ms.group(3), 'return']
            fns[f.name] = f; i += 1; continue
        m = _FN_RE.match(L) or _CONST_RE.match(L) or _NAMEDCONST_RE.match(L)
        if not m:
            m0 = _FN0_RE.match(L)
            if m0: m = m0
        if m:
            name = prefix + m.group(1)
            nargs = len(re.findall(r'(?:^|, )_\d+: ', m.group(2)))
            f = Fn(name, nargs); f.sig = L
            f.argtys = [a.split(': ', 1)[1] if ': ' in a else '' for a in split_top(m.group(2))]
            f.ret = m.group(3) if m.lastindex and m.lastindex >= 3 else '()'
            if m.group(1) in dup:
                name = name + '§' + re.sub(r'[^\w<>&,]', '', ','.join(f.argtys) + '>' + f.ret); f.name = name
            i += 1
            cur = None
            while i < n and lines[i] != '}':
                l = lines[i].strip()
                mb = _BB_RE.match(l)
                if mb: cur = mb.group(1); f.blocks[cur] = []
                elif l == '}': cur = None
                elif cur and l and not l.startswith('//'):
                    f.blocks[cur].append(l[:-1] if l.endswith(';') else l)
                i += 1
            fns[name] = f
        i += 1
    return fns

# ------------------------------------------------------------------ the executor
_NOP = ('StorageLive', 'StorageDead', 'nop', 'FakeRead', 'PlaceMention', 'Retag', 'Coverage', 'ConstEvalCounter', 'AscribeUserType')
_BIN = ('Eq', 'Ne', 'Lt', 'Le', 'Gt', 'Ge', 'Rem', 'Div', 'Add', 'Sub', 'Mul', 'BitAnd', 'BitOr', 'BitXor', 'Shl', 'Shr', 'AddUnchecked', 'SubUnchecked', 'MulUnchecked', 'ShlUnchecked', 'ShrUnchecked')
_RV_KW = ('Add', 'Sub', 'Mul', 'Eq', 'Ne', 'Lt', 'Le', 'Gt', 'Ge', 'Rem', 'Div', 'Not', 'Neg', 'BitAnd', 'BitOr', 'BitXor', 'PtrMetadata', 'Shl', 'Shr', 'Len', 'discriminant')
_INT_W = {'u8': 8, 'i8': 8, 'u16': 16, 'i16': 16, 'u32': 32, 'i32': 32, 'u64': 64, 'i64': 64, 'usize': 64, 'isize': 64, 'u128': 128, 'i128': 128, 'char': 32, 'bool': 1}

class Exec:
    def __init__(self, fns, models, enums, overflow_checks=True, max_steps=16_000_000, solver_timeout_ms=60_000):
        self.fns, self.models, self.enums, self.ovf = fns, models, enums, overflow_checks
        self.inlined = set(); self.modelled = set()
        self._stmt_cache = {}; self._term_cache = {}
        self.max_steps = max_steps; self.solver_timeout_ms = solver_timeout_ms
        self.n_solver = 0; self.t_solver = 0.0; self.n_branches = 0
        self.callee_alias = {}      # callee text -> fn name (filled by the resolver)
        self.resolver = None
        self.stack = []; self.env_stack = []
        self.pre = []               # assumptions added by the entry before execution (kept in pc)

    # ---------------- exploration
    def explore(self, entry, max_paths=100000, wall_s=None, prefixes=None):
        """entry(ex) -> result. returns list of dict(prefix, pc, kind, result)."""
        work = [list(p) for p in (prefixes or [[]])]; out = []
        t0 = time.time()
        while work:
            if len(out) >= max_paths: raise Budget(f'path budget {max_paths} exhausted')
            if wall_s and time.time() - t0 > wall_s: raise Budget(f'wall budget {wall_s}s exhausted')
            out.extend(self.run_prefix(entry, work.pop(), work))
        return out

    def run_prefix(self, entry, prefix, work):
        self.trace = list(prefix); self.pos = 0; self.pc = []; self.work = work; self.steps = 0; self.stack = []; self.env_stack = []
        self.solver = z3.Solver(); self.solver.set('timeout', self.solver_timeout_ms)
        self.known = {}; self.cur_model = None; self._keep = []
        try: r = ('ok', entry(self))
        except Panic as p: r = ('panic', {'msg': p.msg, 'where': p.where or (self.stack[-1] if self.stack else None), 'stack': list(self.stack[-6:])})
        except Infeasible: return []
        return [{'prefix': list(self.trace[:self.pos]), 'pc': list(self.pc), 'kind': r[0], 'result': r[1]}]

    def depth(self): return len(self.stack)
    def unwind_to(self, d):
        """after a caught crate panic: drop the frames of the abandoned calls"""
        del self.stack[d:]; del self.env_stack[d:]

    def assume(self, c):
        self.pc.append(c); self.solver.add(c); self.cur_model = None

    def _feasible(self, c):
        """is pc /\ c satisfiable?  (one incremental solver per path; a model of pc is kept and tried first)"""
        if self.cur_model is not None:
            try:
                if z3.is_true(self.cur_model.eval(c, model_completion=True)): return True
            except z3.Z3Exception: pass
        self.n_solver += 1; t = time.time()
        self.solver.push(); self.solver.add(c); r = self.solver.check()
        m = self.solver.model() if r == z3.sat else None
        self.solver.pop()
        self.t_solver += time.time() - t
        if r == z3.unknown: raise Unsupported('solver returned unknown on a branch query')
        if m is not None: self.cur_model = m
        return r == z3.sat

    def branch(self, conds):
        """conds: list of mutually exclusive z3 Bool; returns chosen index (forks the others)"""
        self.n_branches += 1
        if self.pos < len(self.trace):
            i = self.trace[self.pos]
        else:
            simp = [z3.simplify(c) for c in conds]
            feas = []
            for j, c in enumerate(simp):
                if z3.is_false(c): continue
                if z3.is_true(c): feas.append(j); break
                if self._feasible(c): feas.append(j)
            if not feas: raise Infeasible()
            i = feas[0]
            for j in feas[1:]: self.work.append(self.trace[:self.pos] + [j])
            self.trace = self.trace[:self.pos] + [i]
        self.pos += 1
        c = conds[i]
        self.pc.append(c); self.solver.add(c)
        if self.cur_model is not None:
            try:
                if not z3.is_true(self.cur_model.eval(c, model_completion=True)): self.cur_model = None
            except z3.Z3Exception: self.cur_model = None
        return i

    def decide(self, cond):
        c = z3.simplify(cond)
        if z3.is_true(c): return True
        if z3.is_false(c): return False
        neg = False; core = c
        if z3.is_not(c): core = c.arg(0); neg = True
        k = core.get_id()
        v = self.known.get(k)
        if v is not None: return v != neg
        r = self.branch([c, z3.Not(c)]) == 0
        self.known[k] = (r != neg); self._keep = getattr(self, '_keep', []); self._keep.append(core)   # keep the AST alive: ids are reused after GC
        return r

    def sat(self, fs):
        self.n_solver += 1; t = time.time()
        s = z3.Solver(); s.set('timeout', self.solver_timeout_ms); s.add(*fs); r = s.check()
        self.t_solver += time.time() - t
        if r == z3.unknown: raise Unsupported('solver returned unknown on a branch query')
        return r == z3.sat

    def model(self, extra=()):
        s = z3.Solver(); s.set('timeout', self.solver_timeout_ms); s.add(*self.pc); s.add(*extra)
        r = s.check()
        if r == z3.unknown: raise Unsupported('solver returned unknown')
        return s.model() if r == z3.sat else None

    def valid(self, claim, extra=()):
        """pc (and extra) imply claim? returns (True, None) or (False, model)"""
        self.n_solver += 1; t = time.time()
        s = z3.Solver(); s.set('timeout', self.solver_timeout_ms); s.add(*self.pc); s.add(*extra); s.add(z3.Not(claim)); r = s.check()
        self.t_solver += time.time() - t
        if r == z3.unknown: raise Unsupported('solver returned unknown on an obligation')
        return (True, None) if r == z3.unsat else (False, s.model())

    # ---------------- compilation of places / operands / rvalues
    def _c_place(self, s):
        """returns f(frame) -> (container, key)"""
        s = s.strip()
        m = re.match(r'^_(\d+)$', s)
        if m:
            n = int(m.group(1)); return lambda fr: (fr, n)
        m = re.match(r'^(.*)\[_(\d+)\]$', s)
        if m:
            base = self._c_place(m.group(1)); n = int(m.group(2))
            def f(fr):
                c, k = base(fr); v = c[k]; i = conc(fr[n])
                return _index_container(v, i)
            return f
        m = re.match(r'^(.*)\[(-?\d+) of (\d+)\]$', s)
        if m:
            base = self._c_place(m.group(1)); i0 = int(m.group(2))
            def f(fr):
                c, k = base(fr); v = c[k]
                return _index_container(v, i0)
            return f
        if _wraps(s):
            inner = s[1:-1]
            if inner.startswith('*'):
                base = self._c_place(inner[1:])
                def f(fr):
                    c, k = base(fr); r = c[k]
                    if isinstance(r, Ref): return r.c, r.k
                    if isinstance(r, SliceRef): return {'s': r}, 's'
                    raise Unsupported('deref of ' + type(r).__name__ + ' in ' + s)
                return f
            d = 0
            for j, ch in enumerate(inner):
                if ch in '([{<': d += 1
                elif ch in ')]}>' and not (ch == '>' and inner[j-1] in '-='): d -= 1
                elif ch == ':' and d == 0 and inner[j+1] == ' ':
                    left = inner[:j]; k0 = left.rfind('.')
                    base = self._c_place(left[:k0]); idx = int(left[k0+1:])
                    def f(fr):
                        c, k = base(fr); obj = c[k]
                        if isinstance(obj, Enum): return obj.payload.f, idx
                        return obj.f, idx
                    return f
            m = re.match(r'^(.*) as (\w+|variant#\d+)$', inner)
            if m:
                base = self._c_place(m.group(1)); vname = m.group(2)
                def f(fr):
                    c, k = base(fr); obj = c[k]
                    if obj.__class__ is Enum and obj.payload.__class__ is MultiPayload:
                        return {'d': Enum(obj.disc, obj.payload.variants[vname], obj.ty)}, 'd'
                    return c, k
                return f
        raise Unsupported('place? ' + s)

    def _c_const(self, s):
        m = re.match(r'^const (-?\d+)_(u8|i8|u16|i16|u32|i32|u64|i64|usize|isize|u128|i128)$', s)
        if m:
            v = z3.BitVecVal(int(m.group(1)), _INT_W[m.group(2)]); return lambda fr: v
        if s in ('const true', 'const false'):
            v = z3.BoolVal(s == 'const true'); return lambda fr: v
        m = re.match(r'^const "(.*)"$', s)
        if m:
            v = PyStr(_unescape(m.group(1))); return lambda fr: v
        m = re.match(r"^const '(.*)'$", s)
        if m:
            v = PyStr(_unescape(m.group(1))); return lambda fr: v
        m = re.match(r'^const b"(.*)"$', s)
        if m:
            v = Opaque(('bytes', m.group(1))); return lambda fr: v
        if s.startswith('const ZeroSized: '):
            ty = s[len('const ZeroSized: '):]
            mc = re.match(r'^\{closure@([^}]*)\}$', ty)
            if mc:
                tag = 'closure@' + mc.group(1); return lambda fr: Struct({}, tag)
            if ty == '()': return lambda fr: Unit()
            v = Opaque(('zst', ty)); return lambda fr: v
        if s == 'const ()': return lambda fr: Unit()
        m = re.match(r'^const (.*)::promoted\[(\d+)\]$', s)
        if m:
            def f(fr, s=s, m=m):
                name = self.resolve_promoted(m.group(1), int(m.group(2)))
                if name: return self.call(name, [])
                return Opaque(('const', s))
            return f
        m = re.match(r'^const (.+)$', s)
        if m:
            body = m.group(1)
            # unit enum variant / unit struct constant / named const
            e = self._enum_variant(body)
            if e is not None: return lambda fr: Enum(e[0], None, e[1])
            def f(fr, body=body, s=s):
                r = self.models.constant(self, body)
                if r is not None: return r
                name = self.named_const(body)
                if name is not None: return self.call(name, [])
                return Opaque(('const', s))
            return f
        raise Unsupported('const? ' + s)

    def _enum_variant(self, path):
        hs = strip_turbofish(path); segs = hs.split('::')
        qual = '::'.join(segs[-2:]) if len(segs) >= 2 else hs
        if qual in self.enums: return (self.enums[qual], segs[-2] if len(segs) >= 2 else None)
        return None

    def _c_operand(self, s):
        s = s.strip()
        for pre in ('no_retag copy ', 'no_retag move ', 'copy ', 'move '):
            if s.startswith(pre):
                p = self._c_place(s[len(pre):])
                def f(fr, p=p):
                    c, k = p(fr); return c[k]
                return f
        if s.startswith('const '): return self._c_const(s)
        if re.match(r'^[\w:<>{}@#\[\] ,\.\-\'&()]+$', s) and ('::' in s or strip_turbofish(s) in self.fns):
            v = Opaque(('fnitem', s)); return lambda fr: v
        raise Unsupported('operand? ' + s)

    def _c_rvalue(self, s):
        s = s.strip()
        O = self._c_operand
        m = re.match(r'^(Add|Sub|Mul)WithOverflow\((.*)\)$', s)
        if m:
            a_, b_ = [O(x) for x in split_top(m.group(2))]; op = m.group(1)
            def f(fr):
                a, b = a_(fr), b_(fr)
                if a.size() != b.size():
                    # an integer that reached this point through a model at a wider width (e.g. the items of a Range<u32> iterator): the narrower operand has the MIR type
                    n0 = min(a.size(), b.size()); a = z3.Extract(n0 - 1, 0, a) if a.size() > n0 else a; b = z3.Extract(n0 - 1, 0, b) if b.size() > n0 else b
                n = a.size(); za, zb = z3.ZeroExt(n, a), z3.ZeroExt(n, b)
                if op == 'Sub': return Struct({0: a - b, 1: z3.ULT(a, b)}, 'tuple')
                wide = za + zb if op == 'Add' else za * zb
                return Struct({0: z3.Extract(n - 1, 0, wide), 1: z3.Extract(2 * n - 1, n, wide) != 0}, 'tuple')
            return f
        m = re.match(r'^(' + '|'.join(_BIN) + r')\((.*)\)$', s)
        if m:
            a_, b_ = [O(x) for x in split_top(m.group(2))]; op = m.group(1).replace('Unchecked', '')
            def f(fr):
                a, b = a_(fr), b_(fr)
                if z3.is_bool(a) or z3.is_bool(b):
                    if op == 'Eq': return a == b
                    if op == 'Ne': return a != b
                    if op == 'BitAnd': return z3.And(a, b)
                    if op == 'BitOr': return z3.Or(a, b)
                    if op == 'BitXor': return z3.Xor(a, b)
                    raise Unsupported('bool binop ' + op)
                if isinstance(a, Enum) or isinstance(b, Enum):   # C-like enum compare
                    e = val_eq(a.disc, b.disc); return e if op == 'Eq' else z3.Not(e)
                if isinstance(a, str) and isinstance(b, str):    # chars
                    if op == 'Eq': return z3.BoolVal(str(a) == str(b))
                    if op == 'Ne': return z3.BoolVal(str(a) != str(b))
                    raise Unsupported('char binop ' + op)
                if op in ('Shl', 'Shr') and b.size() != a.size():
                    b = z3.ZeroExt(a.size() - b.size(), b) if b.size() < a.size() else z3.Extract(a.size() - 1, 0, b)
                return _BINOPS[op](a, b)
            return f
        m = re.match(r'^discriminant\((.*)\)$', s)
        if m:
            p = self._c_place(m.group(1))
            def f(fr):
                c, k = p(fr); e = c[k]
                if not isinstance(e, Enum): raise Unsupported('discriminant of ' + type(e).__name__)
                return e.disc if z3.is_expr(e.disc) else z3.BitVecVal(e.disc, 64)
            return f
        m = re.match(r'^Not\((.*)\)$', s)
        if m:
            a_ = O(m.group(1))
            def f(fr):
                v = a_(fr); return z3.Not(v) if z3.is_bool(v) else ~v
            return f
        m = re.match(r'^Neg\((.*)\)$', s)
        if m:
            a_ = O(m.group(1)); return lambda fr: -a_(fr)
        m = re.match(r'^PtrMetadata\((.*)\)$', s)
        if m:
            a_ = O(m.group(1))
            def f(fr):
                v = a_(fr)
                if isinstance(v, (SliceRef, str)): return U64(len(v))
                if isinstance(v, Ref) and isinstance(dd(v), (VecVal,)): return U64(len(dd(v).items))
                raise Unsupported('PtrMetadata of ' + type(v).__name__)
            return f
        m = re.match(r'^Len\((.*)\)$', s)
        if m:
            p = self._c_place(m.group(1))
            def f(fr):
                c, k = p(fr); v = c[k]
                if isinstance(v, SliceRef): return U64(len(v))
                if isinstance(v, Struct): return U64(len(v.f))
                raise Unsupported('Len of ' + type(v).__name__)
            return f
        m = re.match(r'^(const .*) as (\w+) \(IntToInt\)$', s)
        if m:
            cv = self._c_const(m.group(1)); w = _INT_W.get(m.group(2)); neg = re.match(r'^const -', m.group(1)) is not None
            if w is None: raise Unsupported('IntToInt to ' + m.group(2))
            def f(fr):
                v = cv(fr)
                if v.size() == w: return v
                return z3.Extract(w - 1, 0, v) if v.size() > w else (z3.SignExt if neg else z3.ZeroExt)(w - v.size(), v)
            return f
        m = re.match(r'^(copy|move) (.*) as (.*) \((\w+)(\(.*\))?\)$', s)
        if m:
            p = self._c_place(m.group(2)); ty = m.group(3); kind = m.group(4)
            def load(fr):
                c, k = p(fr); return c[k]
            if kind == 'Transmute' or kind == 'PtrToPtr': return load
            if kind == 'IntToInt':
                w = _INT_W.get(ty)
                if w is None: raise Unsupported('IntToInt to ' + ty)
                signed = None
                def f(fr):
                    v = load(fr)
                    if isinstance(v, Enum): v = v.disc if z3.is_expr(v.disc) else z3.BitVecVal(v.disc, 64)
                    if z3.is_bool(v): v = z3.If(v, z3.BitVecVal(1, w), z3.BitVecVal(0, w)); return v
                    if isinstance(v, str): v = z3.BitVecVal(ord(v), 32)
                    if v.size() == w: return v
                    return z3.Extract(w - 1, 0, v) if v.size() > w else z3.ZeroExt(w - v.size(), v)
                return f
            if kind == 'PointerCoercion':
                if re.match(r'^&(mut )?\[.*\]$', ty) or re.match(r"^&'\w+ (mut )?\[.*\]$", ty):
                    def f(fr):
                        r = load(fr); arr = dd(r)
                        if isinstance(arr, Struct): lst = [arr.f[i] for i in sorted(arr.f)]; return SliceRef(lst, 0, len(lst))
                        if isinstance(arr, VecVal): return SliceRef(arr.items, 0, len(arr.items))
                        raise Unsupported('unsize of ' + type(arr).__name__)
                    return f
                return load   # Box<T> -> Box<dyn ..>, &T -> &dyn .., fn item -> fn ptr, closure -> fn ptr
            raise Unsupported('cast kind ' + kind + ' in ' + s)
        if s.startswith('&raw const (fake) ') or s.startswith('&raw mut (fake) '):
            inner = s.split('(fake) ', 1)[1]
            if inner.startswith('(*') and _wraps(inner):
                p = self._c_place(inner[2:-1])
                def f(fr):
                    c, k = p(fr); return c[k]
                return f
        for pre in ('&raw const ', '&raw mut ', '&mut ', '&'):
            if s.startswith(pre) and not s.startswith('&&'):
                body = s[len(pre):]
                # re-borrow of a dereferenced slice / str is the fat pointer itself
                p = self._c_place(body)
                isderef = _wraps(body) and body[1:-1].startswith('*') and re.match(r'^_\d+$', body[2:-1].strip()) is not None
                if isderef:
                    n0 = int(body[2:-1].strip()[1:])
                    def f(fr):
                        v = fr[n0]
                        if isinstance(v, (SliceRef, str)) : return v
                        if isinstance(v, Ref): return Ref(v.c, v.k) if not isinstance(v, BoxRef) else v
                        raise Unsupported('reborrow of ' + type(v).__name__)
                    return f
                def f(fr):
                    c, k = p(fr)
                    if c.__class__ is dict and k == 's' and isinstance(c.get('s'), SliceRef): return c['s']
                    return Ref(c, k)
                return f
        # aggregates --------------------------------------------------
        m = re.match(r'^\{closure@([^}]*)\}( \{(.*)\})?$', s)
        if m:
            tag = 'closure@' + m.group(1)
            fs = [O(x.split(': ', 1)[1]) for x in split_top(m.group(3))] if m.group(3) else []
            return lambda fr: Struct({i: g(fr) for i, g in enumerate(fs)}, tag)
        m = re.match(r'^\{coroutine@', s)
        if m: raise Unsupported('coroutine')
        m = re.match(r'^\[(.*); (\d+)\]$', s)
        if m and not m.group(1).startswith(('copy ', 'move ', 'const ')) is False and len(split_top(s[1:-1], ';')) == 2:
            g = O(m.group(1)); cnt = int(m.group(2))
            return lambda fr: Struct({i: cp(g(fr)) for i in range(cnt)}, 'array')
        m = re.match(r'^\[(.*)\]$', s)
        if m:
            fs = [O(x) for x in split_top(m.group(1))]
            return lambda fr: Struct({i: g(fr) for i, g in enumerate(fs)}, 'array')
        m = re.match(r'^\((.*),\)$', s)
        if m and len(split_top(m.group(1))) == 1:
            g = O(m.group(1)); return lambda fr: Struct({0: g(fr)}, 'tuple')
        if s == '()': return lambda fr: Unit()
        if _wraps(s) and len(split_top(s[1:-1])) > 1:
            fs = [O(x) for x in split_top(s[1:-1])]
            return lambda fr: Struct({i: g(fr) for i, g in enumerate(fs)}, 'tuple')
        if not s.startswith(('copy ', 'move ', 'const ', 'no_retag ', '&', '(', '[', '{')):
            head, argstr, braces = s, None, False
            if s.endswith(')'):
                d = 0
                for j in range(len(s) - 1, -1, -1):
                    if s[j] == ')': d += 1
                    elif s[j] == '(':
                        d -= 1
                        if d == 0: head, argstr = s[:j], s[j+1:-1]; break
            elif s.endswith(' }') or s.endswith('{}'):
                j = _brace_open(s)
                if j is not None: head, argstr, braces = s[:j].rstrip(), s[j+1:-1].strip(), True
            if not any(head == kw or head.startswith(kw + '(') for kw in _RV_KW):
                e = self._enum_variant(head)
                if e is not None:
                    if braces: fs = [O(x.split(': ', 1)[1]) for x in split_top(argstr)] if argstr else []
                    else: fs = [O(a) for a in split_top(argstr)] if argstr else []
                    return lambda fr: Enum(e[0], Struct({i: g(fr) for i, g in enumerate(fs)}), e[1])
                hs = strip_turbofish(head); last = hs.rsplit('::', 1)[-1]
                if re.match(r'^(\w+::)*[A-Z]\w*$', hs) and (argstr is not None or braces):
                    if braces: fs = [O(x.split(': ', 1)[1]) for x in split_top(argstr)] if argstr else []
                    else: fs = [O(a) for a in split_top(argstr)] if argstr else []
                    return lambda fr: Struct({i: g(fr) for i, g in enumerate(fs)}, last)
                if re.match(r'^(\w+::)*[A-Z]\w*$', hs) and argstr is None:
                    return lambda fr: Struct({}, last)       # unit struct
        return O(s)

    # ---------------- statements / terminators
    def _c_stmt(self, s):
        if s.startswith(_NOP): return None
        if s.startswith('discriminant('):
            m = re.match(r'^discriminant\((.*)\) = (\d+)$', s)
            p = self._c_place(m.group(1)); v = int(m.group(2))
            def f(fr):
                c, k = p(fr); e = c[k]
                if isinstance(e, Enum): e.disc = v
                else: c[k] = Enum(v)
            return f
        if s.startswith('Deinit(') or s.startswith('Assume(') or s.startswith('assume('): return None
        if ' = ' not in s: raise Unsupported('statement? ' + s)
        lhs, rhs = s.split(' = ', 1)
        p = self._c_place(lhs); rv = self._c_rvalue(rhs)
        simple = re.match(r'^_(\d+)$', lhs.strip())
        if simple:
            n = int(simple.group(1))
            def f(fr): fr[n] = rv(fr)
            return f
        def f(fr):
            v = rv(fr); c, k = p(fr); c[k] = v
        return f

    def _c_term(self, t):
        if t == 'return': return ('ret',)
        if t == 'unreachable': return ('unreachable',)
        if t.startswith('resume') or t.startswith('abort') or t.startswith('terminate'): return ('unreachable',)
        m = re.match(r'^goto -> (bb\d+)$', t)
        if m: return ('goto', m.group(1))
        m = re.match(r'^drop\(.*\) -> \[return: (bb\d+), unwind.*$', t)
        if m: return ('goto', m.group(1))
        m = re.match(r'^falseEdge -> \[real: (bb\d+), imaginary: bb\d+\]$', t) or re.match(r'^falseUnwind -> \[real: (bb\d+), .*\]$', t)
        if m: return ('goto', m.group(1))
        m = re.match(r'^assert\((!?)(.*?), "(.*?)"(?:, .*)?\) -> \[success: (bb\d+), unwind.*$', t)
        if m:
            c = self._c_operand(m.group(2)); return ('assert', bool(m.group(1)), c, m.group(3), m.group(4))
        m = re.match(r'^switchInt\((.*)\) -> \[(.*)\]$', t)
        if m:
            v = self._c_operand(m.group(1))
            arms = [a.split(': ') for a in split_top(m.group(2))]
            return ('switch', v, [(None if a == 'otherwise' else int(a), b) for a, b in arms])
        j = t.rfind(') -> [return: '); ret = None; left = None
        if j >= 0:
            ret = re.match(r'^(bb\d+)', t[j + len(') -> [return: '):]).group(1); left = t[:j + 1]
        else:
            j = t.rfind(') -> unwind')
            if j >= 0: left = t[:j + 1]
            else:
                mm = re.search(r'\) -> bb\d+$', t)
                if mm: left = t[:mm.start() + 1]
        if left and ' = ' in left:
            dest, callexpr = left.split(' = ', 1)
            d = 0; q = len(callexpr) - 1
            while q >= 0:
                ch = callexpr[q]
                if ch == "'" and q >= 2 and callexpr[q - 2] == "'": q -= 3; continue
                if ch == '"':
                    q -= 1
                    while q >= 0 and not (callexpr[q] == '"' and callexpr[q-1] != '\\'): q -= 1
                    q -= 1; continue
                if ch == ')': d += 1
                elif ch == '(':
                    d -= 1
                    if d == 0:
                        callee, argstr = callexpr[:q], callexpr[q + 1:-1]
                        args = [self._c_operand(a) for a in split_top(argstr)] if argstr.strip() else []
                        return ('call', self._c_place(dest), dest.strip(), callee, args, ret)
                q -= 1
        raise Unsupported('terminator? ' + t)

    def _compile_block(self, fn, bb):
        key = (fn.name, bb)
        stmts = fn.blocks[bb]
        cs = []
        for s in stmts[:-1]:
            f = self._stmt_cache.get(s, 0)
            if f == 0:
                try: f = self._c_stmt(s)
                except Unsupported as e:
                    msg = str(e)
                    def f(fr, msg=msg, s=s): raise Unsupported(msg + ' [in ' + s[:120] + ']')
                self._stmt_cache[s] = f
            if f is not None: cs.append(f)
        t = stmts[-1]
        tt = self._term_cache.get(t)
        if tt is None:
            try: tt = self._c_term(t)
            except Unsupported as e: tt = ('unsupported', str(e) + ' [in ' + t[:160] + ']')
            self._term_cache[t] = tt
        fn.compiled[bb] = (cs, tt)
        return fn.compiled[bb]

    # ---------------- calls
    def named_const(self, body):
        hs = strip_turbofish(body)
        if hs in self.fns and self.fns[hs].nargs == 0: return hs
        last = '::'.join(hs.split('::')[-2:])
        c = [k for k in self.fns if (k == hs or k.endswith('::' + last) or k.endswith('::' + hs.split('::')[-1]) or k == hs.split('::')[-1]) and self.fns[k].nargs == 0 and 'promoted' not in k and not self.fns[k].sig.startswith('fn ')]
        return c[0] if len(c) == 1 else None

    def resolve_promoted(self, path, idx):
        if self.resolver: return self.resolver.promoted(path, idx)
        return None

    def resolve_callee(self, callee, args=None):
        r = self.callee_alias.get(callee, 0)
        if r != 0: return r
        base = strip_turbofish(callee)
        name = base if base in self.fns else None
        if name is None and self.resolver: name = self.resolver.resolve(callee, base)
        self.callee_alias[callee] = name
        return name

    def call_callee(self, callee, args):
        """dispatch a MIR call: model override > crate function > model"""
        h = self.models.lookup(self, callee)
        if h is not None and h.first:
            r = h(self, callee, args)
            if r is not NotImplemented: self.modelled.add(h.name); return r
        env = self.env_stack[-1] if self.env_stack else None
        if env:
            mm = re.match(r'^<(&?)([A-Z]\w?) as ', callee)
            if mm and mm.group(2) in env:
                return self.call_callee('<' + mm.group(1) + env[mm.group(2)] + callee[mm.end(2):], args)
        name = self.resolve_callee(callee, args)
        if isinstance(name, tuple):
            name = self.resolver.resolve_dyn(name[1], name[2], args, name[3])
        if name is not None:
            e2 = self.resolver.impl_env(name, callee) if (self.resolver and '<' in callee[:callee.find(' as ')] if ' as ' in callee else False) else None
            return self.call(name, args, e2)
        if h is not None:
            r = h(self, callee, args)
            if r is not NotImplemented: self.modelled.add(h.name); return r
        r = self.models.dynamic(self, callee, args)
        if r is not NotImplemented: return r
        norm = _NORM_RE.sub('', callee)
        if norm != callee: return self.call_callee(norm, args)
        raise Unsupported('no model for ' + callee)

    def call(self, fname, args, env=None):
        fn = self.fns.get(fname)
        if fn is None: raise Unsupported('unknown function ' + fname)
        self.inlined.add(fname)
        if len(self.stack) > 400: raise Unsupported('call depth > 400 in ' + fname)
        self.stack.append(fname); self.env_stack.append(env)
        frame = {0: _UNIT}
        for i, a in enumerate(args): frame[i + 1] = a
        bb = 'bb0'; compiled = fn.compiled
        while True:
            blk = compiled.get(bb)
            if blk is None: blk = self._compile_block(fn, bb)
            cs, t = blk
            self.steps += len(cs) + 1
            if self.steps > self.max_steps: raise Budget('step budget exhausted')
            for f in cs: f(frame)
            k = t[0]
            if k == 'goto': bb = t[1]
            elif k == 'call':
                _, destp, dest, callee, argfs, ret = t
                a2 = [g(frame) for g in argfs]
                rv = self.call_callee(callee, a2)
                if ret is None: raise Panic('diverging call returned: ' + callee[:80])
                c, kk = destp(frame); c[kk] = rv; bb = ret
            elif k == 'switch':
                v = t[1](frame); arms = t[2]
                if isinstance(v, str): v = z3.BitVecVal(ord(v), 32)
                if isinstance(v, Enum): v = v.disc if z3.is_expr(v.disc) else z3.BitVecVal(v.disc, 64)
                vs = z3.simplify(v) if z3.is_expr(v) else v
                if z3.is_bv_value(vs) or z3.is_true(vs) or z3.is_false(vs):
                    cv = vs.as_long() if z3.is_bv_value(vs) else (1 if z3.is_true(vs) else 0)
                    if z3.is_bv_value(vs) and cv >= (1 << (vs.size() - 1)) and any(a is not None and a < 0 for a, _ in arms): cv -= (1 << vs.size())
                    tgt = None
                    for a, b in arms:
                        if a is None or a == cv: tgt = b; break
                    if tgt is None: raise Infeasible()
                    bb = tgt
                else:
                    conds, seen = [], []
                    for a, b in arms:
                        if a is None: conds.append(z3.And(*[z3.Not(c) for c in seen]) if seen else z3.BoolVal(True))
                        else:
                            c = (v == z3.BitVecVal(a, v.size())) if z3.is_bv(v) else (v if a else z3.Not(v))
                            conds.append(c); seen.append(c)
                    bb = arms[self.branch(conds)][1]
            elif k == 'assert':
                _, neg, cf, msg, succ = t
                if 'overflow' in msg and not self.ovf: bb = succ; continue
                c = cf(frame); c = z3.Not(c) if neg else c
                if not self.decide(c): raise Panic(msg, fname)
                bb = succ
            elif k == 'ret':
                self.stack.pop(); self.env_stack.pop(); return frame[0]
            elif k == 'unreachable': raise Infeasible()
            elif k == 'unsupported': raise Unsupported(t[1] + ' in fn ' + fname)
            else: raise Unsupported('terminator kind ' + k)

def _index_container(v, i):
    if isinstance(v, SliceRef):
        if i >= len(v): raise Panic('index out of bounds: the len is %d but the index is %d' % (len(v), i))
        return v.lst, v.start + i
    if isinstance(v, VecVal):
        if i >= len(v.items): raise Panic('index out of bounds')
        return v.items, i
    if isinstance(v, Struct): return v.f, i
    if isinstance(v, BoxCell): return v.content.f, i
    raise Unsupported('index into ' + type(v).__name__)

def _brace_open(s):
    d = 0
    for j in range(len(s) - 1, -1, -1):
        if s[j] == '}': d += 1
        elif s[j] == '{':
            d -= 1
            if d == 0: return j
    return None

def _unescape(t):
    try: return bytes(t, 'utf-8').decode('unicode_escape') if '\\' in t else t
    except Exception: return t

_NORM_RE = re.compile(r'\b(?:std|core|alloc)::(?:string|vec|boxed|option|clone|cmp|default|convert|iter|marker|hash|ops|str|slice)::(?=[A-Z])')
_BINOPS = {
    'Eq': lambda a, b: a == b, 'Ne': lambda a, b: a != b,
    'Lt': lambda a, b: z3.ULT(a, b), 'Le': lambda a, b: z3.ULE(a, b), 'Gt': lambda a, b: z3.UGT(a, b), 'Ge': lambda a, b: z3.UGE(a, b),
    'Rem': lambda a, b: z3.URem(a, b), 'Div': lambda a, b: z3.UDiv(a, b),
    'Add': lambda a, b: a + b, 'Sub': lambda a, b: a - b, 'Mul': lambda a, b: a * b,
    'BitAnd': lambda a, b: a & b, 'BitOr': lambda a, b: a | b, 'BitXor': lambda a, b: a ^ b,
    'Shl': lambda a, b: a << b, 'Shr': lambda a, b: z3.LShR(a, b),
}
