"""Independent checker for explanation proofs (C07). Works on TERMS only: every equation of the dumped proof DAG is a pair of terms
(EGraph::get_syn_expr of both sides, all syntactic slots written out); nothing here looks at class ids, slot maps or the crate.

A proof node is {'rule': explicit|refl|sym|trans|cong, 'l': term, 'r': term, 'prem': [node index...], 'just': text|None}; a term is a nested
list [op, arg...] in the argument order of oracle.SIG (slot labels are strings, payloads ['#', n], children lists).

An equation may be used under any renaming of its slots that is injective on each of its two sides (slotted equations are closed under
injective renaming; a slot that occurs on one side only is redundant there, so identifying it with a slot of the other side is sound).
Rules:
  refl      l and r are alpha-equal
  sym       premise a = b, renaming t: t(b) = l, t(a) = r
  trans     premises a1 = b1, a2 = b2, renamings t1, t2: t1(a1) = l, t1(b1) = t2(a2), t2(b2) = r
  cong      l and r have the same operator, the same own free slots, as many children as premises; for child k (under the node's binder,
            both bound names replaced by one new name) premise k proves child_l = child_r under a renaming
  explicit  l = r is an equation the user asserted (same orientation), under a renaming, with the justification the user gave
Conclusion: the root equation is the queried one under a renaming that is injective on all its slots together.
"""
from . import oracle as O

def to_term(t):
    """JSON list -> oracle tuple term (labels stay strings)"""
    if isinstance(t, (list, tuple)) and len(t) == 2 and t[0] == '#': return t[1]
    op = t[0]; sig = O.SIG[op]; out = [op]
    for kind, a in zip(sig, t[1:]):
        if kind == 'c': out.append(to_term(a))
        elif kind == 'p': out.append(a[1] if isinstance(a, (list, tuple)) else a)
        else: out.append(a)
    return tuple(out)

class _UF:
    def __init__(self): self.p = {}
    def find(self, x):
        self.p.setdefault(x, x)
        while self.p[x] != x:
            self.p[x] = self.p[self.p[x]]; x = self.p[x]
        return x
    def union(self, a, b):
        a, b = self.find(a), self.find(b)
        if a != b: self.p[a] = b

def _walk(ca, cb, ta, tb, cons):
    """parallel walk over two alpha-normalised terms; collects slot constraints ((tag, name) | ('const', name)) pairs; False on a shape clash"""
    if ca[0] != cb[0] or len(ca) != len(cb): return False
    sig = [k for k in O.SIG[ca[0]] if k != 'b']      # canon() drops binder occurrences
    for kind, a, b in zip(sig, ca[1:], cb[1:]):
        if kind == 'c':
            if not _walk(a, b, ta, tb, cons): return False
        elif kind == 'p':
            if a != b: return False
        else:
            ba = isinstance(a, tuple) and a and a[0] == 'b'; bb = isinstance(b, tuple) and b and b[0] == 'b'
            if ba or bb:
                if a != b: return False
            else: cons.append(((ta, a), (tb, b)))
    return True

def solve(pairs, sides, joint=()):
    """pairs: [(term_a, tag_a, term_b, tag_b)] must become alpha-equal; a tag of None means the term's names are constants.
    sides: [(tag, term)] - the renaming of that tag must be injective on the free names of that term. joint: [(tag, [terms])] - injective on all of them together.
    -> True iff renamings exist"""
    cons = []
    for a, ta, b, tb in pairs:
        if not _walk(O.canon(a), O.canon(b), ta or 'const', tb or 'const', cons): return False
    uf = _UF()
    for x, y in cons: uf.union(x, y)
    # two different constants may not be identified
    seen = {}
    for x in list(uf.p):
        if x[0] == 'const':
            r = uf.find(x)
            if r in seen and seen[r] != x: return False
            seen[r] = x
    def inj(tag, names):
        cl = {}
        for n in names:
            r = uf.find((tag, n))
            if r in cl and cl[r] != n: return False
            cl[r] = n
        return True
    for tag, term in sides:
        if tag is not None and not inj(tag, O.free_names(term)): return False
    for tag, terms in joint:
        names = []
        for t in terms:
            for n in O.free_names(t):
                if n not in names: names.append(n)
        if not inj(tag, names): return False
    return True

def _open_children(t, z):
    """(own free slot labels in order, [child with the node's binder name replaced by z]) of the top node"""
    sig = O.SIG[t[0]]; own = []; kids = []; pending = None
    for kind, a in zip(sig, t[1:]):
        if kind == 's': own.append(a)
        elif kind == 'p': own.append(('#', a))
        elif kind == 'b': pending = a
        else:
            kids.append(O._subst_free(a, pending, z) if pending is not None else a); pending = None
    return own, kids

def _pmatch(p, t, vmap, smap):
    """syntactic match of a rule pattern ('?v' strings are variables) against a term: collects variable bindings (a variable bound twice must bind
    alpha-equal subterms) and the map from the pattern's slot names to the term's names (consistent and injective)"""
    if isinstance(p, str):
        if p in vmap: return O.canon(vmap[p]) == O.canon(t)
        vmap[p] = t; return True
    if not isinstance(t, tuple) or p[0] != t[0] or len(p) != len(t): return False
    for kind, a, b in zip(O.SIG[p[0]], p[1:], t[1:]):
        if kind == 'c':
            if not _pmatch(a, b, vmap, smap): return False
        elif kind == 'p':
            if a != b: return False
        else:
            if a in smap:
                if smap[a] != b: return False
            elif b in smap.values(): return False
            else: smap[a] = b
    return True
def _inst(p, vmap, smap):
    if isinstance(p, str): return vmap[p]
    return tuple([p[0]] + [(_inst(a, vmap, smap) if kind == 'c' else (a if kind == 'p' else smap.setdefault(a, ('rule-fresh', a)))) for kind, a in zip(O.SIG[p[0]], p[1:])])
def rule_instance(lhs, rhs, l, r):
    """is l = r an instance of the rewrite rule lhs => rhs (right sides without the substitution form)? lhs is matched against l as written (the leaf is
    stated over the instantiated patterns), which binds the variables and names the pattern's slots; slots that only the right side writes are new names"""
    vmap, smap = {}, {}
    if not _pmatch(lhs, l, vmap, smap): return False
    try: ri = _inst(rhs, vmap, smap)
    except KeyError: return False
    # alpha-equality up to the choice of the new names
    cons = []
    if not _walk(O.canon(ri), O.canon(r), 'i', 'const', cons): return False
    img = {}
    for (ta, a), (tb, b) in cons:
        if isinstance(a, tuple) and a and a[0] == 'rule-fresh':
            if img.setdefault(a, b) != b: return False
        elif a != b: return False
    return len(set(img.values())) == len(img) and not (set(img.values()) & set(O.free_names(l)))

def check_proof(dump, query, asserted):
    """dump: {'root', 'nodes'}; query: (s, t) oracle terms over labels; asserted: [(s, t, just)] -> list of (kind, detail)"""
    out = []
    nodes = [dict(n, l=to_term(n['l']), r=to_term(n['r'])) for n in dump['nodes']]
    for k, n in enumerate(nodes):
        l, r, rule = n['l'], n['r'], n['rule']
        prem = [nodes[i] for i in n['prem']]
        ok = False
        if rule == 'refl': ok = not prem and O.canon(l) == O.canon(r)
        elif rule == 'sym' and len(prem) == 1:
            a, b = prem[0]['l'], prem[0]['r']
            ok = solve([(b, 'p', l, None), (a, 'p', r, None)], [('p', a), ('p', b)])
        elif rule == 'trans' and len(prem) == 2:
            a1, b1, a2, b2 = prem[0]['l'], prem[0]['r'], prem[1]['l'], prem[1]['r']
            ok = solve([(a1, 1, l, None), (b2, 2, r, None), (b1, 1, a2, 2)], [(1, a1), (1, b1), (2, a2), (2, b2)])
        elif rule == 'cong':
            if l[0] == r[0]:
                z = ('cong-bound', k)
                ownl, kl = _open_children(l, z); ownr, kr = _open_children(r, z)
                # the node's own free slots: alpha-normalise the two nodes with their children cut off
                ok = ownl == ownr and len(kl) == len(kr) == len(prem)
                if ok:
                    for i, (cl, cr, p) in enumerate(zip(kl, kr, prem)):
                        if not solve([(p['l'], 'p', cl, None), (p['r'], 'p', cr, None)], [('p', p['l']), ('p', p['r'])]): ok = False; break
        elif rule == 'explicit' and not prem:
            if asserted is None: continue
            for s, t, just in asserted:
                if just != n.get('just'): continue
                if isinstance(s, tuple) and s and s[0] == '__rule__':      # a rewrite rule (lhs pattern, rhs pattern): the leaf must be one of its instances
                    if rule_instance(s[1], t, l, r): ok = True; break
                elif solve([(s, 'u', l, None), (t, 'u', r, None)], [('u', s), ('u', t)]): ok = True; break
            if not ok: out.append(('proof_bad_leaf', {'node': k, 'l': l, 'r': r, 'just': n.get('just')})); continue
        if not ok: out.append(('proof_bad_step', {'node': k, 'rule': rule, 'l': l, 'r': r, 'premises': [(p['l'], p['r']) for p in prem]}))
    root = nodes[dump['root']]
    if query is None: return out
    s, t = query
    if not solve([(root['l'], 'q', s, None), (root['r'], 'q', t, None)], [], joint=[('q', [root['l'], root['r']])]):
        out.append(('proof_wrong_conclusion', {'proved': (root['l'], root['r']), 'queried': (s, t)}))
    return out

def shape_summary(dump):
    """what is compared between a symbolic record and its native run (no template context needed): are all inner steps valid, which justifications
    occur at the leaves, and the root equation up to a joint injective renaming (free names numbered by first occurrence)"""
    try:
        issues = [k for k, _ in check_proof(dump, None, None) if k == 'proof_bad_step']
        root = dump['nodes'][dump['root']]; l, r = to_term(root['l']), to_term(root['r'])
        names = []
        for t in (l, r):
            for n in O.free_names(t):
                if n not in names: names.append(n)
        m = {n: 'v%d' % i for i, n in enumerate(names)}
        rooteq = [repr(O.canon(O._subst_free_map(l, m))), repr(O.canon(O._subst_free_map(r, m)))]
    except Exception as e:
        issues = ['proof_checker_error']; rooteq = str(e)[:100]
    return {'bad_steps': len(issues), 'leaves': sorted(set(str(n.get('just')) for n in dump['nodes'] if n['rule'] == 'explicit')), 'root': rooteq}

def self_test(dump, query, asserted):
    """sensitivity of the checker on one accepted proof: every mutant below changes what is claimed, so a checker that still accepts it would be
    vacuous. -> (mutants generated, mutants rejected, descriptions of accepted mutants)"""
    import copy
    if check_proof(dump, query, asserted): return 0, 0, []
    gen = rej = 0; accepted = []
    def run(d, q, a, what):
        nonlocal gen, rej
        gen += 1
        try: bad = bool(check_proof(d, q, a))
        except Exception: bad = True
        if bad: rej += 1
        else: accepted.append(what)
    root = dump['nodes'][dump['root']]
    if O.canon(to_term(root['l'])) != O.canon(to_term(root['r'])):
        run(dump, (query[1], query[0]), asserted, 'query flipped')                                  # the proof no longer proves what was asked (unless the flipped equation is the same up to renaming)
    for k, n in enumerate(dump['nodes']):
        if n['rule'] == 'explicit':
            d = copy.deepcopy(dump); d['nodes'][k]['just'] = 'no such justification'; run(d, query, asserted, 'leaf %d with another justification' % k)
            d = copy.deepcopy(dump); d['nodes'][k]['l'], d['nodes'][k]['r'] = d['nodes'][k]['r'], d['nodes'][k]['l']
            if O.canon(to_term(n['l'])) != O.canon(to_term(n['r'])): run(d, query, asserted, 'leaf %d flipped' % k)
        if n['rule'] == 'trans' and n['prem'][0] != n['prem'][1]:
            d = copy.deepcopy(dump); d['nodes'][k]['prem'] = list(reversed(n['prem'])); run(d, query, asserted, 'transitivity %d with its premises exchanged' % k)
        if n['rule'] in ('sym', 'trans', 'cong') and O.canon(to_term(n['l'])) != O.canon(to_term(n['r'])):
            d = copy.deepcopy(dump); d['nodes'][k]['rule'] = 'refl'; d['nodes'][k]['prem'] = []; run(d, query, asserted, 'step %d relabelled reflexivity' % k)
    return gen, rej, accepted
