"""Native side: builds /verif/natdiff against /repo's working tree and runs concrete histories on the real crate.

Used (1) for translator validation: every symbolic record (path x coincidence pattern) is compared with the
native run of the history under the concrete names of that record's model; a mismatch means the encoding or a
library model is wrong -> the check is inconclusive (exit 2), and (2) for replaying counterexamples before a
VIOLATION is reported.
"""
import os, sys, json, subprocess, fcntl, hashlib
from . import dump

NATDIFF = os.path.join(dump.VERIF, 'natdiff')
_tag = hashlib.sha256(dump.REPO.encode()).hexdigest()[:8]
BUILD = os.path.join(dump.CACHE, 'natdiff-build-' + _tag)
TARGET = os.path.join(dump.CACHE, 'natdiff-target-' + _tag)

def build(profile='release', features=()):
    """(re)builds natdiff against the current working tree of the repository (cargo decides what is stale)"""
    os.makedirs(dump.CACHE, exist_ok=True)
    ftag = ''.join('+' + f for f in sorted(features))
    BUILD = os.path.join(dump.CACHE, 'natdiff-build-' + _tag + ftag); TARGET = os.path.join(dump.CACHE, 'natdiff-target-' + _tag + ftag)
    lock = open(os.path.join(dump.CACHE, '.natdiff.lock.' + _tag + ftag), 'w'); fcntl.flock(lock, fcntl.LOCK_EX)
    try:
        os.makedirs(os.path.join(BUILD, 'src'), exist_ok=True)
        src = open(os.path.join(NATDIFF, 'src', 'main.rs')).read()
        dst = os.path.join(BUILD, 'src', 'main.rs')
        if not os.path.exists(dst) or open(dst).read() != src: open(dst, 'w').write(src)
        toml = open(os.path.join(NATDIFF, 'Cargo.toml')).read().replace('path = "/repo"', 'path = "%s"%s' % (dump.REPO, (', features = [%s]' % ', '.join('"%s"' % f for f in features)) if features else ''))
        tp = os.path.join(BUILD, 'Cargo.toml')
        if not os.path.exists(tp) or open(tp).read() != toml: open(tp, 'w').write(toml)
        lk = os.path.join(BUILD, 'Cargo.lock')
        if not os.path.exists(lk):
            import shutil; shutil.copy(os.path.join(NATDIFF, 'Cargo.lock'), lk)
        env = dict(os.environ); env['CARGO_NET_OFFLINE'] = 'true'; env['CARGO_TARGET_DIR'] = TARGET; env['RUSTFLAGS'] = '--cfg slotted_egraphs_verif' + (' --cfg natdiff_explanations' if 'explanations' in features else ''); env['VERIF_DIR'] = dump.VERIF
        cmd = ['cargo', 'build', '--offline', '--quiet'] + (['--release'] if profile == 'release' else [])
        p = subprocess.run(cmd, cwd=BUILD, env=env, stdout=subprocess.PIPE, stderr=subprocess.PIPE)
        if p.returncode != 0:
            sys.stderr.write(p.stderr.decode(errors='replace')[-3000:])
            raise RuntimeError('natdiff build failed')
        return os.path.join(TARGET, 'release' if profile == 'release' else 'debug', 'natdiff')
    finally:
        fcntl.flock(lock, fcntl.LOCK_UN); lock.close()

def show_term(t):
    from .oracle import SIG
    return '(' + t[0] + ''.join(' ' + (str(a) if k in 'sb' else ('#%d' % a if k == 'p' else show_term(a))) for k, a in zip(SIG[t[0]], t[1:])) + ')'

def show_pat(t):
    from .oracle import SIG
    if isinstance(t, str): return t
    if t[0] == 'subst': return '(subst %s %s %s)' % (show_pat(t[1]), show_pat(t[2]), show_pat(t[3]))
    return '(' + t[0] + ''.join(' ' + (str(a) if k in 'sb' else show_pat(a)) for k, a in zip(SIG[t[0]], t[1:])) + ')'

def op_line(op):
    if op[0] == 'ematch': return 'ematch ' + show_pat(op[1])
    if op[0] == 'mmatch': return 'mmatch ' + ' ; '.join('%s | %s' % (v, show_pat(p)) for v, p in op[1])
    if op[0] == 'extract': return 'extract %s %s' % (op[2], show_term(op[1]))
    if op[0] == 'union' and len(op) > 3: return 'union %s %s | %s' % (show_term(op[1]), show_term(op[2]), op[3])
    if op[0] == 'explain': return 'explain %s %s' % (show_term(op[1]), show_term(op[2]))
    if op[0] == 'rewrite': return 'rewrite ' + ' ; '.join(('%s | %s | %s' % (r[1], show_pat(r[2]), show_pat(r[3]))) + (' | %s %d' % (r[4], r[5]) if r[0] == 'rule_if' else '') for r in op[1])
    return op[0] + ' ' + ' '.join(show_term(x) if isinstance(x, (tuple, list)) else str(x) for x in op[1:])

def case_text(cid, tmpl, values, f0, named_max):
    lines = ['case %s %s %s %d %d%s' % (cid, tmpl.lang, tmpl.analysis, f0, named_max, (' light' if getattr(tmpl, 'light', False) else '') + (' dump' if getattr(tmpl, 'model', False) else '') + ((' subst=' + tmpl.subst_method) if getattr(tmpl, 'subst_method', None) else '')), 'names ' + ' '.join(str(v) for v in values)]
    if getattr(tmpl, 'late', None): lines.append('late ' + ' '.join('%d:%d' % (i, k) for i, k in sorted(tmpl.late.items())))
    for op in tmpl.ops: lines.append(op_line(op))
    return '\n'.join(lines) + '\n'

def run_cases(text, profile='release', timeout=600, features=()):
    exe = build(profile, features)
    p = subprocess.run([exe], input=text.encode(), stdout=subprocess.PIPE, stderr=subprocess.PIPE, timeout=timeout)
    out = {}
    for line in p.stdout.decode().split('\n'):
        if not line.strip(): continue
        r = json.loads(line)
        if 'case' in r: out[r['case']] = r
    return out

_CMP_KEYS = ('explain_summary', 'eq', 'live', 'nodes', 'progress', 'classes', 'union_ret', 'readd', 'probe', 'ematch', 'rewrite_ret', 'extract', 'mmatch')
def _norm_step(s):
    """class ids are compared up to renaming (which id survives a merge may depend on the hash iteration order of the worklist,
    which the native build and the model need not share): ids -> index of the first handle in that class"""
    d = {k: s.get(k) for k in _CMP_KEYS if k in s}
    if s.get('explain'):
        from . import proofcheck
        d['explain_summary'] = proofcheck.shape_summary(s['explain'])
    ids = [None if c is None else c['id'] for c in s['canon']]
    rank = {}
    for i in ids:
        if i is not None and i not in rank: rank[i] = len(rank)
    d['canon'] = [None if c is None else {'class': rank[c['id']], 'idem': c['idem'], 'nslots': c['nslots'], 'vals': c['vals'], 'hvals': c['hvals'], 'hdata': c.get('hdata')} for c in s['canon']]
    cls = s.get('classes') or {}
    d['classes'] = sorted(json.dumps({k: v for k, v in c.items() if k in ('nslots', 'gcount', 'data', 'data_fix')}, sort_keys=True) for c in cls.values())
    d['handle_classes'] = [None if c is None else {k: v for k, v in cls.get(str(c['id']), {}).items() if k in ('nslots', 'gcount', 'data', 'data_fix')} for c in s['canon']]
    d['live'] = len(s.get('live') or [])
    chk = s.get('check')
    if chk is not None:
        d['check'] = 'ok' if chk.get('check') == 'ok' else 'panic'
        d['consistency'] = sorted(set(x[0] for x in chk.get('consistency', [])))
    if 'readd' in d and d['readd'] is not None:
        d['readd'] = {k: v for k, v in d['readd'].items() if k != 'term'}
    if d.get('extract'): d['extract'] = {k: v for k, v in d['extract'].items() if k not in ('term', 'free_term')}      # ties between equally cheap terms may be broken differently
    if d.get('ematch'):
        def dh(h): return None if h is None else {'vals': h['vals']}
        d['ematch'] = {'unchanged': d['ematch']['unchanged'], 'matches': sorted(({'bound': m['bound'], 'found': m['found'], 'inst': dh(m['inst']), 'binds': {k: dh(v) for k, v in m['binds'].items()}} for m in d['ematch']['matches']), key=lambda x: json.dumps(x, sort_keys=True))}
    return json.loads(json.dumps(d))

def compare(sym_rec, nat_rec):
    """returns list of differences between a symbolic record and the native run (empty = translator validated on this record)"""
    diffs = []
    ss, ns = sym_rec['steps'], nat_rec['steps']
    sp, np_ = sym_rec.get('panic'), nat_rec.get('panic')
    if (sp is None) != (np_ is None): diffs.append(('panic', sp and sp['msg'], np_))
    n = min(len(ss), len(ns))
    if len(ss) != len(ns) and sp is None and np_ is None: diffs.append(('steps', len(ss), len(ns)))
    for i in range(n):
        a, b = _norm_step(ss[i]), _norm_step(ns[i])
        for k in a:
            if k in b and a[k] != b[k]: diffs.append(('step%d.%s' % (i, k), a[k], b[k]))
    return diffs
