"""C03 oracle: denotation of an e-graph in a finite model.

Model: arithmetic over the prime field GF(P) with a summation binder and a let binder (language Lm of the harness crate):
    mvar s      -> env[s]
    madd a b    -> a + b          mmul a b -> a * b
    msum $x b   -> sum over v in SUM_RANGE = {0, 1} of b with x := v   (a proper subset of the field: summing over all of GF(3) would make
                   the sum of any constant and the sum of the identity both 0, i.e. blind to a bound variable replaced by a constant)
    mlet $x b t -> b with x := value of t
Because the field is finite, a class with k parameter slots denotes a table of P**k values, and "two e-nodes denote the same function" is
decided exhaustively over all environments, not by sampling.

A dumped e-graph is {class id: {'slots': [label...], 'nodes': [node...]}}, node = [op, arg...] with arg = slot label (kinds 's', 'b') or
{'id': class id, 'map': [[class slot label, argument label]...]} (kind 'c'); labels are opaque strings.
"""
import itertools
from . import oracle as O

P = 3
SUM_RANGE = (0, 1)
MSIG = {'mvar': 's', 'madd': 'cc', 'mmul': 'cc', 'msum': 'bc', 'mlet': 'bcc'}

class Incomplete(Exception): pass

def node_free_slots(node):
    """free slot labels of a dumped node (binder scope = the child that directly follows the binder)"""
    free = []; bound = None
    for kind, a in zip(MSIG[node[0]], node[1:]):
        if kind == 's':
            if a not in free: free.append(a)
        elif kind == 'b': bound = a
        else:
            for _, v in a['map']:
                if v != bound and v not in free: free.append(v)
            bound = None
    return free

def child_value(tables, classes, ch, env):
    t = tables.get(str(ch['id']))
    if t is None: raise Incomplete(ch['id'])
    m = dict((k, v) for k, v in ch['map'])
    key = []
    for s in classes[str(ch['id'])]['slots']:
        if s not in m: raise KeyError('invocation of class %s has no argument for its slot %s' % (ch['id'], s))
        if m[s] not in env: raise KeyError('slot %s is not in scope' % m[s])
        key.append(env[m[s]])
    return t[tuple(key)]

def eval_node(tables, classes, node, env, p=P):
    op = node[0]; a = node[1:]
    if op == 'mvar':
        if a[0] not in env: raise KeyError('slot %s is not in scope' % a[0])
        return env[a[0]]
    if op == 'madd': return (child_value(tables, classes, a[0], env) + child_value(tables, classes, a[1], env)) % p
    if op == 'mmul': return (child_value(tables, classes, a[0], env) * child_value(tables, classes, a[1], env)) % p
    if op == 'msum':
        x, b = a; tot = 0
        for v in SUM_RANGE:
            e2 = dict(env); e2[x] = v; tot += child_value(tables, classes, b, e2)
        return tot % p
    if op == 'mlet':
        x, b, t = a
        vt = child_value(tables, classes, t, env)
        e2 = dict(env); e2[x] = vt
        return child_value(tables, classes, b, e2)
    raise ValueError(op)

def node_table(tables, classes, cid, node, p=P):
    """table of the node as a function of the class slots; (table, issue or None); Incomplete if a child class has no table yet"""
    slots = classes[cid]['slots']
    extra = [s for s in node_free_slots(node) if s not in slots]
    tab = {}; issue = None
    for vals in itertools.product(range(p), repeat=len(slots)):
        env = dict(zip(slots, vals)); seen = None
        for xv in itertools.product(range(p), repeat=len(extra)):
            e2 = dict(env); e2.update(zip(extra, xv))
            r = eval_node(tables, classes, node, e2, p)
            if seen is None: seen = r
            elif r != seen and issue is None:
                issue = ('model_redundant_slot_matters', {'class': cid, 'node': node, 'class_slots': slots, 'extra_slots': extra, 'env': e2, 'values': [seen, r]})
        tab[vals] = seen
    return tab, issue

def eval_graph(classes, p=P):
    """-> (tables, issues): fixpoint from the well-founded nodes; every further node of a class is compared with the class table"""
    classes = {str(k): v for k, v in classes.items()}
    tables = {}; issues = []; done = set()
    changed = True
    while changed:
        changed = False
        for cid, c in classes.items():
            for ni, node in enumerate(c['nodes']):
                if (cid, ni) in done: continue
                try: tab, issue = node_table(tables, classes, cid, node, p)
                except Incomplete: continue
                except KeyError as e:
                    issues.append(('model_ill_scoped', {'class': cid, 'node': node, 'why': str(e)})); done.add((cid, ni)); continue
                done.add((cid, ni)); changed = True
                if issue: issues.append(issue)
                if cid not in tables: tables[cid] = tab
                elif tables[cid] != tab:
                    env = next(k for k in tab if tab[k] != tables[cid][k])
                    first = next(n for j, n in enumerate(c['nodes']) if (cid, j) in done)
                    issues.append(('model_members_disagree', {'class': cid, 'class_slots': c['slots'], 'node': node, 'other_node': first,
                                                              'env': dict(zip(c['slots'], env)), 'values': [tab[env], tables[cid][env]]}))
    for cid, c in classes.items():
        if cid not in tables: issues.append(('model_no_wellfounded_node', {'class': cid}))
        for ni, node in enumerate(c['nodes']):
            if (cid, ni) not in done and cid in tables: issues.append(('model_node_not_evaluated', {'class': cid, 'node': node}))
    return tables, issues

# ---- direct evaluation of a term (nested tuples with names) ----
def term_free_names(t, bound=()):
    out = []
    b = None
    for kind, a in zip(MSIG[t[0]], t[1:]):
        if kind == 's':
            if a not in bound and a not in out: out.append(a)
        elif kind == 'b': b = a
        else:
            for n in term_free_names(a, tuple(bound) + ((b,) if b is not None else ())):
                if n not in out: out.append(n)
            b = None
    return out

def eval_term(t, env, p=P):
    op = t[0]; a = t[1:]
    if op == 'mvar': return env[a[0]]
    if op == 'madd': return (eval_term(a[0], env, p) + eval_term(a[1], env, p)) % p
    if op == 'mmul': return (eval_term(a[0], env, p) * eval_term(a[1], env, p)) % p
    if op == 'msum':
        tot = 0
        for v in SUM_RANGE:
            e2 = dict(env); e2[a[0]] = v; tot += eval_term(a[1], e2, p)
        return tot % p
    if op == 'mlet':
        vt = eval_term(a[2], env, p); e2 = dict(env); e2[a[0]] = vt
        return eval_term(a[1], e2, p)
    raise ValueError(op)

def check_handle(tables, classes, term, label_of, canon, p=P):
    """the inserted term (names) against the table of the class its handle now points to; canon = {'id', 'map': [[class slot label, value label]]}"""
    classes = {str(k): v for k, v in classes.items()}
    cid = str(canon['id'])
    if cid not in tables: return None
    names = term_free_names(term)
    m = dict((k, v) for k, v in canon['map'])
    slots = classes[cid]['slots']
    for vals in itertools.product(range(p), repeat=len(names)):
        env = dict(zip(names, vals))
        want = eval_term(term, env, p)
        lab_env = {label_of(n): v for n, v in env.items()}
        try: key = tuple(lab_env[m[s]] for s in slots)
        except KeyError as e: return ('model_handle_ill_scoped', {'class': cid, 'why': 'class slot / argument %s not among the term\'s free slots' % e})
        got = tables[cid][key]
        if got != want: return ('model_term_changed', {'class': cid, 'env': {str(k): v for k, v in env.items()}, 'term_value': want, 'class_value': got})
    return None
