"""Builds an executor for the current /repo tree: dump MIR, parse, index, attach models."""
import os, re, sys, time, json
from . import dump
from .engine import *
from .resolver import Resolver
from .models import M as BASE_MODELS, It
from . import crate_models

STD_ENUMS = {'Option::None': 0, 'Option::Some': 1, 'Result::Ok': 0, 'Result::Err': 1, 'Ordering::Less': -1, 'Ordering::Equal': 0, 'Ordering::Greater': 1,
             'ControlFlow::Continue': 0, 'ControlFlow::Break': 1, 'AssertKind::Eq': 0, 'AssertKind::Ne': 1, 'AssertKind::Match': 2,
             'Entry::Occupied': 0, 'Entry::Vacant': 1, 'Cow::Borrowed': 0, 'Cow::Owned': 1}

def enums_from_source(roots):
    """enum declarations (also inside define_language!) -> {'Name::Variant': index}"""
    out = {}
    for root in roots:
        for d, _, fn in os.walk(root):
            for f in fn:
                if not f.endswith('.rs'): continue
                text = open(os.path.join(d, f)).read()
                text = re.sub(r'//[^\n]*', '', text)
                text = re.sub(r'/\*.*?\*/', '', text, flags=re.S)
                for m in re.finditer(r'\benum\s+(\w+)\s*(<[^{]*>)?\s*(where[^{]*)?\{', text):
                    name = m.group(1); i = m.end(); depth = 1; j = i; body = []
                    while j < len(text) and depth > 0:
                        c = text[j]
                        if c in '{([': depth += 1
                        elif c in '})]': depth -= 1
                        if depth >= 1: body.append(c if depth == 1 or True else c)
                        j += 1
                    body = ''.join(body)
                    # split top-level by commas
                    parts, dep, cur = [], 0, ''
                    for c in body:
                        if c in '{([<': dep += 1
                        elif c in '})]>': dep -= 1
                        if c == ',' and dep == 0: parts.append(cur); cur = ''
                        else: cur += c
                    if cur.strip(): parts.append(cur)
                    idx = 0
                    for p in parts:
                        p = re.sub(r'#\[[^\]]*\]', '', p).strip()
                        mm = re.match(r'^(\w+)', p)
                        if not mm: continue
                        out[name + '::' + mm.group(1)] = idx; idx += 1
    return out

class Session:
    def __init__(self, features=(), overflow=True, typarams=None, verbose=False):
        t0 = time.time()
        self.info = dump.get(tuple(features), overflow)
        crate = open(self.info['crate_mir']).read(); hx = open(self.info['hx_mir']).read()
        self.fns = parse_mir(crate)
        self.fns.update(parse_mir(hx, 'hx::'))
        self.enums = dict(STD_ENUMS)
        self.enums.update(enums_from_source([self.info['src_root'], os.path.join(self.info['hx_root'], 'src')]))
        self.resolver = Resolver(self.fns, [('', self.info['src_root']), ('hx::', self.info['hx_root'])])
        self.overflow = overflow; self.features = tuple(features)
        self.setup_s = time.time() - t0
        self.mir_hash = self.info['hash']

    def executor(self, **kw):
        ex = Exec(self.fns, BASE_MODELS, self.enums, overflow_checks=self.overflow, **kw)
        ex.resolver = self.resolver
        ex.session = self
        crate_models.install(ex)
        return ex

    def M(self, spec): return self.resolver.M(spec)

def _struct_fields(roots, features):
    out = {}
    for root in roots:
        for d, _, fn in os.walk(root):
            for f in fn:
                if not f.endswith('.rs'): continue
                text = open(os.path.join(d, f)).read()
                text = re.sub(r'//[^\n]*', '', text)
                for m in re.finditer(r'\bstruct\s+(\w+)\s*(<[^{;]*>)?\s*(where[^{]*)?\{', text):
                    name = m.group(1); i = m.end(); depth = 1; j = i
                    while j < len(text) and depth > 0:
                        if text[j] == '{': depth += 1
                        elif text[j] == '}': depth -= 1
                        j += 1
                    body = text[i:j-1]
                    parts, dep, cur = [], 0, ''
                    for c in body:
                        if c in '{([<': dep += 1
                        elif c in '})]>': dep -= 1
                        if c == ',' and dep == 0: parts.append(cur); cur = ''
                        else: cur += c
                    if cur.strip(): parts.append(cur)
                    fields = []
                    for p in parts:
                        cfgs = re.findall(r'#\[cfg\(feature\s*=\s*"(\w+)"\)\]', p)
                        ncfgs = re.findall(r'#\[cfg\(not\(feature\s*=\s*"(\w+)"\)\)\]', p)
                        if any(c not in features for c in cfgs) or any(c in features for c in ncfgs): continue
                        p2 = re.sub(r'#\[[^\]]*\]', '', p).strip()
                        mm = re.match(r'^(?:pub(?:\([^)]*\))?\s+)?(\w+)\s*:', p2)
                        if mm: fields.append(mm.group(1))
                    out[name] = fields
    return out

def _field_index(self, struct, field):
    if not hasattr(self, '_fields'):
        self._fields = _struct_fields([self.info['src_root'], os.path.join(self.info['hx_root'], 'src')], self.features)
    return self._fields[struct].index(field)
Session.field_index = _field_index
