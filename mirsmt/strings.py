"""Symbolic strings for the parser checks (C18): a string is a concrete-length sequence of symbolic code points.

Byte offsets are concrete once the UTF-8 width class of each preceding character is decided (a solver branch), so
slicing by byte index, `char_indices`, `chars().position`, `find`, `trim`, `split` and comparisons with literals all
run on concrete shapes with symbolic characters.  Registered in front of the concrete-string models; a model declines
(NotImplemented) when its receiver is not an SStr.
"""
import z3
from .engine import *
from .models import M, It, call_fn, B, truth

WS_ASCII = (9, 10, 11, 12, 13, 32)
WS_OTHER = (0x85, 0xA0, 0x1680, 0x2028, 0x2029, 0x202F, 0x205F, 0x3000)

class SStr:
    """slice [start, end) of a list of code points (z3 BV32 or python ints)"""
    __slots__ = ('chars', 'start', 'end')
    def __init__(self, chars, start=0, end=None):
        self.chars = chars; self.start = start; self.end = len(chars) if end is None else end
    def __len__(self): return self.end - self.start
    def cs(self): return self.chars[self.start:self.end]
    def sub(self, a, b=None): return SStr(self.chars, self.start + a, self.end if b is None else self.start + b)
    def __repr__(self): return 'SStr(%d chars)' % len(self)

class SChar:
    __slots__ = ('c',)
    def __init__(self, c): self.c = c

def cval(c): return c if z3.is_expr(c) else z3.BitVecVal(c, 32)
def valid_char(c):
    """a Rust char: a Unicode scalar value"""
    c = cval(c); return z3.And(z3.ULE(c, 0x10FFFF), z3.Or(z3.ULT(c, 0xD800), z3.UGT(c, 0xDFFF)))
def width(ex, c):
    c = cval(c)
    if ex.decide(z3.ULT(c, 0x80)): return 1
    if ex.decide(z3.ULT(c, 0x800)): return 2
    if ex.decide(z3.ULT(c, 0x10000)): return 3
    return 4
def is_ws(c):
    c = cval(c)
    return z3.Or(*([c == w for w in WS_ASCII + WS_OTHER] + [z3.And(z3.UGE(c, 0x2000), z3.ULE(c, 0x200A))]))
def offsets(ex, s):
    """byte offsets of the characters of s plus the total length"""
    out = [0]
    for c in s.cs(): out.append(out[-1] + width(ex, c))
    return out
def char_at_offset(ex, s, off):
    """index of the character starting at byte offset off (len for the end); panics like str slicing otherwise"""
    offs = offsets(ex, s)
    if off in offs: return offs.index(off)
    if off > offs[-1]: raise Panic('byte index %d is out of bounds of the string' % off)
    raise Panic('byte index %d is not a char boundary' % off)
def lit(x):
    x = dd(x)
    if isinstance(x, SStr): return x
    if isinstance(x, str): return SStr([ord(ch) for ch in str(x)])
    return None
def seq_eq(a, b):
    if len(a) != len(b): return z3.BoolVal(False)
    return z3.And(*[cval(x) == cval(y) for x, y in zip(a.cs(), b.cs())]) if len(a) else z3.BoolVal(True)

def S(x): return dd(x)
def is_s(x): return isinstance(S(x), SStr)

@M.add(r'^<str as PartialEq>::(eq|ne)$|^<String as PartialEq(<.*>)?>::(eq|ne)$|^<&str as PartialEq(<.*>)?>::(eq|ne)$|^<String as PartialEq<str>>::(eq|ne)$|^<str as PartialEq<String>>::(eq|ne)$', front=True, first=True)
def s_eq(ex, c, args, m):
    a, b = S(args[0]), S(args[1])
    if not isinstance(a, SStr) and not isinstance(b, SStr): return NotImplemented
    e = seq_eq(lit(a), lit(b)); return e if c.endswith('eq') else z3.Not(e)
@M.add(r'^<String as From<&str>>::from$|^<str as ToString>::to_string$|^<String as ToString>::to_string$|^<String as (std::ops::)?Deref>::deref$|^String::as_str$|^<str as ToOwned>::to_owned$|^<String as Clone>::clone$|^<&str as ToString>::to_string$', front=True, first=True)
def s_ident(ex, c, args, m):
    return S(args[0]) if is_s(args[0]) else NotImplemented
@M.add(r'^core::str::<impl str>::(trim_start|trim_end|trim|is_empty|len|chars|char_indices)$|^String::(len|is_empty)$', front=True)
def s_ops(ex, c, args, m):
    s = S(args[0])
    if not isinstance(s, SStr): return NotImplemented
    op = m.group(1) or m.group(2)
    if op in ('trim_start', 'trim'):
        a = 0
        while a < len(s) and ex.decide(is_ws(s.cs()[a])): a += 1
        s = s.sub(a)
        if op == 'trim_start': return s
    if op in ('trim_end', 'trim'):
        b = len(s)
        while b > 0 and ex.decide(is_ws(s.cs()[b - 1])): b -= 1
        return s.sub(0, b)
    if op == 'is_empty': return B(len(s) == 0)
    if op == 'len': return U64(offsets(ex, s)[-1])
    if op == 'chars': return It(SChar(ch) for ch in s.cs())
    if op == 'char_indices':
        def g():
            off = 0
            for ch in s.cs():
                yield tup(U64(off), SChar(ch)); off += width(ex, ch)
        return It(g())
@M.add(r'^core::str::<impl str>::(starts_with|ends_with|contains)::<(.*)>$', front=True)
def s_pred(ex, c, args, m):
    s = S(args[0]); p = S(args[1])
    if not isinstance(s, SStr) and not isinstance(p, SChar): return NotImplemented
    op = m.group(1)
    if isinstance(p, SChar) or (isinstance(p, str) and m.group(2) == 'char'):
        pc = p.c if isinstance(p, SChar) else ord(str(p))
        s = lit(s)
        if op == 'starts_with': return (cval(s.cs()[0]) == cval(pc)) if len(s) else B(False)
        if op == 'ends_with': return (cval(s.cs()[-1]) == cval(pc)) if len(s) else B(False)
        return z3.Or(*[cval(x) == cval(pc) for x in s.cs()]) if len(s) else B(False)
    p = lit(p)
    if p is None: raise Unsupported('string pattern type in ' + c)
    if op == 'starts_with': return seq_eq(s.sub(0, len(p)), p) if len(p) <= len(s) else B(False)
    if op == 'ends_with': return seq_eq(s.sub(len(s) - len(p)), p) if len(p) <= len(s) else B(False)
    return z3.Or(*[seq_eq(s.sub(i, i + len(p)), p) for i in range(len(s) - len(p) + 1)]) if len(p) <= len(s) else B(False)
@M.add(r'^<str as Index<(?:std::ops::)?(RangeFrom|RangeTo|Range)<usize>>>::index$|^<String as Index<(?:std::ops::)?(RangeFrom|RangeTo|Range)<usize>>>::index$', front=True)
def s_index(ex, c, args, m):
    s = S(args[0])
    if not isinstance(s, SStr): return NotImplemented
    kind = m.group(1) or m.group(2); r = args[1]
    if kind == 'RangeFrom': return s.sub(char_at_offset(ex, s, conc(r.f[0])))
    if kind == 'RangeTo': return s.sub(0, char_at_offset(ex, s, conc(r.f[0])))
    a, b = conc(r.f[0]), conc(r.f[1])
    if a > b: raise Panic('slice index starts at %d but ends at %d' % (a, b))
    return s.sub(char_at_offset(ex, s, a), char_at_offset(ex, s, b))
@M.add(r'^char::methods::<impl char>::(is_whitespace|is_alphanumeric|is_alphabetic|is_numeric|is_ascii_digit)$', front=True)
def s_char_pred(ex, c, args, m):
    ch = S(args[0])
    if not isinstance(ch, SChar): return NotImplemented
    if m.group(1) == 'is_whitespace': return is_ws(ch.c)
    c_ = cval(ch.c)
    digit = z3.And(z3.UGE(c_, 48), z3.ULE(c_, 57))
    if m.group(1) == 'is_ascii_digit': return digit
    alpha = z3.Or(z3.And(z3.UGE(c_, 65), z3.ULE(c_, 90)), z3.And(z3.UGE(c_, 97), z3.ULE(c_, 122)))
    # exact on ASCII; beyond ASCII the Unicode tables are an uninterpreted predicate of the code point (both answers are explored, a
    # counterexample is replayed natively before it counts)
    u = z3.Function('unicode_' + m.group(1), z3.BitVecSort(32), z3.BoolSort())(c_)
    asc = {'is_alphanumeric': z3.Or(alpha, digit), 'is_alphabetic': alpha, 'is_numeric': digit}[m.group(1)]
    return z3.If(z3.ULT(c_, 128), asc, u)
@M.add(r'^<char as PartialEq>::(eq|ne)$', front=True, first=True)
def s_char_eq(ex, c, args, m):
    a, b = S(args[0]), S(args[1])
    if not isinstance(a, SChar) and not isinstance(b, SChar): return NotImplemented
    ca = a.c if isinstance(a, SChar) else ord(str(a)); cb = b.c if isinstance(b, SChar) else ord(str(b))
    e = cval(ca) == cval(cb); return e if m.group(1) == 'eq' else z3.Not(e)
@M.add(r'^core::str::<impl str>::split::<', front=True)
def s_split(ex, c, args, m):
    s = S(args[0]); p = lit(args[1])
    if not isinstance(s, SStr): return NotImplemented
    out = []; start = 0; i = 0
    while i + len(p) <= len(s):
        if ex.decide(seq_eq(s.sub(i, i + len(p)), p)): out.append(s.sub(start, i)); i += len(p); start = i
        else: i += 1
    out.append(s.sub(start))
    return It(out)
@M.add(r'^core::str::<impl str>::parse::<(u32|usize|u64)>$', front=True)
def s_parse(ex, c, args, m):
    s = S(args[0])
    if not isinstance(s, SStr): return NotImplemented
    # decimal parse of a short symbolic string: optional '+', then one or more ASCII digits; 9 digits always fit a u32
    cs = [cval(c) for c in s.cs()]
    if len(cs) > 9: raise Unsupported('integer parsing of a symbolic string of more than 9 characters')
    if cs and ex.decide(cs[0] == ord('+')): cs = cs[1:]
    if not cs: return err(Opaque('ParseIntError'))
    for c_ in cs:
        if not ex.decide(z3.And(z3.UGE(c_, ord('0')), z3.ULE(c_, ord('9')))): return err(Opaque('ParseIntError'))
    w = 64 if m.group(1) != 'u32' else 32
    v = z3.BitVecVal(0, w)
    for c_ in cs: v = v * 10 + (z3.ZeroExt(w - 32, c_ - ord('0')) if w > 32 else (c_ - ord('0')))
    return ok(v)

class SChoice:
    """a string that is one of a few literals, selected by a solver variable (identifier tokens)"""
    __slots__ = ('sel', 'options')
    def __init__(self, sel, options): self.sel, self.options = sel, options
    def constraint(self): return z3.ULT(self.sel, len(self.options))
    def value(self, model): return self.options[model.eval(self.sel, model_completion=True).as_long()]

@M.add(r'^<str as PartialEq>::(eq|ne)$|^<String as PartialEq(<.*>)?>::(eq|ne)$|^<&str as PartialEq(<.*>)?>::(eq|ne)$', front=True, first=True)
def sc_eq(ex, c, args, m):
    a, b = S(args[0]), S(args[1])
    if isinstance(b, SChoice): a, b = b, a
    if not isinstance(a, SChoice): return NotImplemented
    if not isinstance(b, str): raise Unsupported('SChoice compared with ' + type(b).__name__)
    e = (a.sel == a.options.index(str(b))) if str(b) in a.options else z3.BoolVal(False)
    return e if c.endswith('eq') else z3.Not(e)
@M.add(r'^<String as From<&str>>::from$|^<str as ToString>::to_string$|^<String as ToString>::to_string$|^<String as (std::ops::)?Deref>::deref$|^String::as_str$|^<String as Clone>::clone$', front=True, first=True)
def sc_ident(ex, c, args, m):
    return S(args[0]) if isinstance(S(args[0]), SChoice) else NotImplemented
