"""Independent oracle: brute-force ground congruence closure over a finite name pool.

Terms are tuples: (op, arg, ...) where an arg is a name (int) for slot positions or a term for child positions.
Operators (fixed signature table SIG): kind 's' = slot position, 'c' = child, 'b' = binder (binds the name in the following child).
The congruence is the smallest one that contains the asserted equations, closed under injective renaming of
free names (each equation is instantiated under every injective map of its names into the pool), alpha-renaming
(bound names are normalised to de Bruijn levels) and congruence (also under binders).
Nothing here looks at the crate.
"""
import itertools

SIG = {
    'f': 'ss', 'g': 'ss', 'h': 'sss',
    'w': 'ssss',
    'var': 's', 'app': 'cc', 'lam': 'bc', 'k': 'ss', 'u': 'c', 'j': 'ss', 't3': 'sss', 's3': 'sss', 'm3': 'sss', 'at': 'sc', 'ta': 'cs', 'w4': 'ssss', 'v4': 'ssss', 'lt': 'cbc',
    'mvar': 's', 'madd': 'cc', 'mmul': 'cc', 'msum': 'bc', 'mlet': 'bcc',
    'avar': 's', 'aadd': 'cc', 'amul': 'cc', 'alam': 'bc', 'num': 'p',        # 'p' = payload (a number, not a name)
}

def canon(t, env=None, depth=0):
    """alpha-normalise: bound names -> ('b', level); free names stay ints"""
    env = env or {}
    op = t[0]; sig = SIG[op]; out = [op]; i = 1; e = env; d = depth
    for kind in sig:
        a = t[i]; i += 1
        if kind == 's': out.append(e.get(a, a))
        elif kind == 'p': out.append(('#', a))
        elif kind == 'b':
            e = dict(e); e[a] = ('b', d); d += 1      # binder occurrence itself is dropped from the canonical form
        else: out.append(canon(a, e, d))
    return tuple(out)

def free_names(t, bound=frozenset()):
    op = t[0]; sig = SIG[op]; out = []; i = 1; b = bound
    for kind in sig:
        a = t[i]; i += 1
        if kind == 's':
            if a not in b and a not in out: out.append(a)
        elif kind == 'b': b = b | {a}
        elif kind == 'p': pass
        else:
            for n in free_names(a, b):
                if n not in out: out.append(n)
    return out

def all_names(t):
    op = t[0]; sig = SIG[op]; out = []; i = 1
    for kind in sig:
        a = t[i]; i += 1
        if kind in 'sb':
            if a not in out: out.append(a)
        elif kind == 'p': pass
        else:
            for n in all_names(a):
                if n not in out: out.append(n)
    return out

def rename(t, m):
    """apply a name map to ALL names (binders too; m must be injective on all_names(t) to be capture free)"""
    op = t[0]; sig = SIG[op]; out = [op]; i = 1
    for kind in sig:
        a = t[i]; i += 1
        out.append(m.get(a, a) if kind in 'sb' else (a if kind == 'p' else rename(a, m)))
    return tuple(out)

def subterms(t):
    """subterms; the body of a binder is included with the bound name as an ordinary (free) name"""
    out = [t]; sig = SIG[t[0]]; i = 1
    for kind in sig:
        a = t[i]; i += 1
        if kind == 'c': out.extend(subterms(a))
    return out

def size(t):
    return 1 + sum(size(a) for kind, a in zip(SIG[t[0]], t[1:]) if kind == 'c')

class Closure:
    def __init__(self, terms, equations, nnames, spare=3):
        """terms: list of terms over names 0..nnames-1 (after applying a coincidence pattern); equations: list of (s, t)"""
        self.pool = list(range(nnames + spare)); self.nnames = nnames
        self.parent = {}
        self.U = {}          # canonical ground term -> one representative named term
        seeds = []
        for t in list(terms) + [x for e in equations for x in e]:
            for s in subterms(t):
                if s not in seeds: seeds.append(s)
        for s in seeds:
            names = all_names(s)
            for img in itertools.permutations(self.pool, len(names)):
                g = rename(s, dict(zip(names, img)))
                c = canon(g)
                if c not in self.U: self.U[c] = g; self.parent[c] = c
        self.eq_instances = []
        for (s, t) in equations:
            names = []
            for n in all_names(s) + all_names(t):
                if n not in names: names.append(n)
            for img in itertools.permutations(self.pool, len(names)):
                m = dict(zip(names, img))
                self.eq_instances.append((canon(rename(s, m)), canon(rename(t, m))))
        self._close()

    def find(self, c):
        p = self.parent
        while p[c] != c:
            p[c] = p[p[c]]; c = p[c]
        return c
    def union(self, a, b):
        a, b = self.find(a), self.find(b)
        if a == b: return False
        self.parent[a] = b; return True

    def _sig(self, c):
        """congruence signature of a canonical term, None for leaves"""
        op = c[0]; sig = SIG[op]
        if 'c' not in sig: return None
        g = self.U[c]
        if 'b' in sig:
            # open the binder with every pool name that is not free in the term: signature = frozenset of (z, class of opened body)
            # elements in front of the binder are ordinary arguments; the children behind it are opened together
            fn = set(free_names(g)); i = 1; binder = None; bodies = []; pre = []
            for kind in sig:
                a = g[i]; i += 1
                if kind == 'b': binder = a
                elif binder is None: pre.append(a if kind in 'sp' else self.find(canon(a)))
                elif kind == 'c': bodies.append(a)
                else: pre.append(('bound-arg', a))
            opened = []
            for z in self.pool:
                if z in fn: continue
                # renaming the binder inside the bodies: inner binders with the same name shadow it
                cbs = [canon(_subst_free(body, binder, z)) for body in bodies]
                if all(cb in self.parent for cb in cbs): opened.append((z, tuple(self.find(cb) for cb in cbs)))
            return ('lamsig', op, tuple(pre), frozenset(opened))
        out = [op]; i = 1
        for kind in sig:
            a = g[i]; i += 1
            out.append(a if kind in 'sp' else self.find(canon(a)))
        return tuple(out)

    def _close(self):
        for a, b in self.eq_instances: self.union(a, b)
        changed = True
        while changed:
            changed = False
            plain = {}; lams = []
            for c in list(self.U):
                s = self._sig(c)
                if s is None: continue
                if s[0] == 'lamsig': lams.append((c, s)); continue
                if s in plain:
                    if self.union(c, plain[s]): changed = True
                else: plain[s] = c
            for i in range(len(lams)):
                for j in range(i + 1, len(lams)):
                    (c1, s1), (c2, s2) = lams[i], lams[j]
                    if s1[1] != s2[1] or s1[2] != s2[2] or self.find(c1) == self.find(c2): continue
                    if s1[3] & s2[3]:
                        if self.union(c1, c2): changed = True

    # ---- queries on named terms (names 0..nnames-1)
    def cls(self, t): return self.find(canon(t))
    def equal(self, s, t): return self.cls(s) == self.cls(t)
    def redundant(self, t):
        fn = free_names(t); spare = [z for z in self.pool if z not in all_names(t)]
        out = []
        for n in fn:
            t2 = _subst_free(t, n, spare[0])
            if self.equal(t, t2): out.append(n)
        return out
    def nonredundant(self, t):
        r = self.redundant(t); return [n for n in free_names(t) if n not in r]
    def symmetries(self, t):
        """permutations (as dicts) of the non-redundant free names that fix the term's class; redundant names are moved out of the way"""
        nr = self.nonredundant(t); red = self.redundant(t)
        spare = [z for z in self.pool if z not in all_names(t)]
        base = t
        # redundant names are renamed to spares first so that they cannot interfere
        for n, z in zip(red, spare): base = _subst_free(base, n, z)
        out = []
        for img in itertools.permutations(nr):
            m = dict(zip(nr, img))
            if self.equal(base, _subst_free_map(base, m)): out.append(m)
        return out
    def same_class(self, s, t):
        """exists a bijective renaming rho of the pool with rho(s) ~ t (i.e. s and t are invocations of one e-class)"""
        ns, nt = self.nonredundant(s), self.nonredundant(t)
        if len(ns) != len(nt): return False
        spare_s = [z for z in self.pool if z not in all_names(s) and z not in all_names(t)]
        bs = s
        for n, z in zip(self.redundant(s), spare_s): bs = _subst_free(bs, n, z)
        for img in itertools.permutations(nt):
            m = dict(zip(ns, img))
            # rename non-redundant names of s onto those of t (injective); avoid clashes with remaining names via two-step renaming
            if self.equal(_subst_free_map(bs, m), t): return True
        return False
    def min_size(self, t):
        """smallest term size in the class of t among universe terms (sizes of class members; fixpoint over children not needed: U is closed under subterms)"""
        c = self.cls(t); best = None
        for u, g in self.U.items():
            if self.find(u) == c:
                s = size(g)
                if best is None or s < best: best = s
        return best

_fresh_ctr = [0]
def _freshen(t, env=None):
    """alpha-rename every binder to a globally unique non-pool name (so that substitutions cannot be captured)"""
    env = env or {}
    op = t[0]; sig = SIG[op]; out = [op]; i = 1; e = env
    for kind in sig:
        a = t[i]; i += 1
        if kind == 's': out.append(e.get(a, a))
        elif kind == 'b':
            _fresh_ctr[0] += 1; nn = ('bn', _fresh_ctr[0]); e = dict(e); e[a] = nn; out.append(nn)
        elif kind == 'p': out.append(a)
        else: out.append(_freshen(a, e))
    return tuple(out)

def _subst_free(t, n, z):
    """replace free occurrences of name n by z (capture avoiding)"""
    return _subst_free0(_freshen(t), n, z)
def _subst_free0(t, n, z):
    op = t[0]; sig = SIG[op]; out = [op]; i = 1; shadow = False
    for kind in sig:
        a = t[i]; i += 1
        if kind == 's': out.append(z if (a == n and not shadow) else a)
        elif kind == 'b':
            out.append(a)
            if a == n: shadow = True
        elif kind == 'p': out.append(a)
        else: out.append(a if shadow else _subst_free0(a, n, z))
    return tuple(out)

def _subst_free_map(t, m):
    return _subst_free_map0(_freshen(t), m)
def _subst_free_map0(t, m, bound=frozenset()):
    op = t[0]; sig = SIG[op]; out = [op]; i = 1; b = bound
    for kind in sig:
        a = t[i]; i += 1
        if kind == 's': out.append(m.get(a, a) if a not in b else a)
        elif kind == 'b': out.append(a); b = b | {a}
        elif kind == 'p': out.append(a)
        else: out.append(_subst_free_map0(a, m, b))
    return tuple(out)

def set_partitions(n):
    """all coincidence patterns of n names as restricted growth strings"""
    def rec(prefix, mx):
        if len(prefix) == n: yield tuple(prefix); return
        for v in range(mx + 2):
            yield from rec(prefix + [v], max(mx, v))
    if n == 0: yield (); return
    yield from rec([0], 0)

def apply_pattern(t, pat):
    """replace name i by pat[i]"""
    if isinstance(t, str): return t
    op = t[0]; sig = SIG[op]; out = [op]; i = 1
    for kind in sig:
        a = t[i]; i += 1
        out.append(pat[a] if kind in 'sb' else (a if kind == 'p' else apply_pattern(a, pat)))
    return tuple(out)

if __name__ == '__main__':
    # self test on the documented T1 table
    for pat in set_partitions(4):
        a, b, c, d = pat
        t1, t2 = ('f', a, b), ('f', c, d)
        C = Closure([t1, t2], [(t1, t2)], max(pat) + 1)
        print(pat, 'eq', C.equal(t1, t2), 'nr', C.nonredundant(t1), C.nonredundant(t2), 'sym', len(C.symmetries(t1)), len(C.symmetries(t2)), 'same', C.same_class(t1, t2))

# ------------------------------------------------------------------ patterns (oracle side of rewriting / matching)
def pat_vars(p):
    if isinstance(p, str): return [p]
    out = []
    for kind, a in zip(SIG[p[0]], p[1:]):
        if kind == 'c':
            for v in pat_vars(a):
                if v not in out: out.append(v)
    return out

def match_term(C, p, t, smap, vmap):
    """all extensions of (slot map, var map) under which pattern p matches the named ground term t, children modulo the closure.
    pattern slots are variables for pairwise distinct names (binder slots included)"""
    if isinstance(p, str):
        if p in vmap: return [(smap, vmap)] if C.equal(vmap[p], t) else []
        v2 = dict(vmap); v2[p] = t; return [(smap, v2)]
    if p[0] != t[0]: return []
    states = [(smap, vmap)]
    for kind, pa, ta in zip(SIG[p[0]], p[1:], t[1:]):
        nxt = []
        for sm, vm in states:
            if kind in 'sb':
                if pa in sm:
                    if sm[pa] == ta: nxt.append((sm, vm))
                elif ta not in sm.values():
                    s2 = dict(sm); s2[pa] = ta; nxt.append((s2, vm))
            elif kind == 'p':
                if pa == ta: nxt.append((sm, vm))
            else:
                # the child class may contain other nodes of the right shape: try every universe term equal to the child
                cands = [ta] if isinstance(pa, str) else class_members(C, ta)
                for cand in cands: nxt.extend(match_term(C, pa, cand, sm, vm))
        states = nxt
        if not states: return []
    return states

def class_members(C, t):
    c = C.cls(t); return [g for u, g in C.U.items() if C.find(u) == c]

def instantiate(p, smap, vmap, fresh):
    """a slot variable the left side does not bind stands for a name distinct from everything matched (fresh(a) supplies one per variable)"""
    if isinstance(p, str): return vmap[p]
    out = [p[0]]
    for kind, a in zip(SIG[p[0]], p[1:]):
        if kind in 'sb':
            if a not in smap: smap = dict(smap); smap[a] = fresh(a)
            out.append(smap[a])
        elif kind == 'p': out.append(a)
        else: out.append(instantiate(a, smap, vmap, fresh))
    return tuple(out)

def rule_instances(C, terms, lhs, rhs):
    """(matched term, rhs instance) for every (sub)term in `terms` that is an instance of lhs"""
    out = []; seen = set()
    for t in terms:
        for s in subterms(t):
            for sm, vm in match_term(C, lhs, s, {}, {}):
                used = set(all_names(s)) | set(sm.values()); extra = {}
                def fresh(a):
                    if a not in extra:
                        n = max([x for x in used if isinstance(x, int)] + [C.nnames - 1]) + 1; used.add(n); extra[a] = n
                    return extra[a]
                try: r = instantiate(rhs, sm, vm, fresh)
                except KeyError: continue         # rhs mentions a variable the lhs does not bind: outside the rule sets used
                key = (canon(s), canon(r))
                if key not in seen: seen.add(key); out.append((s, r))
    return out

# ------------------------------------------------------------------ cheapest represented term of a class
def const_values(C):
    """constant value per universe class (wrapping 32-bit arithmetic): least fixpoint over the nodes of the class; classes with two different
    constants (an unsound history) are reported under the key 'conflict'"""
    val = {}; conflict = set(); changed = True
    while changed:
        changed = False
        for u, g in C.U.items():
            v = None
            if g[0] == 'num': v = g[1] & 0xffffffff
            elif g[0] in ('aadd', 'amul'):
                a, b = val.get(C.cls(g[1])), val.get(C.cls(g[2]))
                if a is not None and b is not None: v = (a + b if g[0] == 'aadd' else a * b) & 0xffffffff
            if v is None: continue
            c = C.find(u)
            if c not in val: val[c] = v; changed = True
            elif val[c] != v: conflict.add(c)
    return val, conflict

def const_closure(terms, eqs, nnames, spare=3):
    """closure of the equations together with what constant folding adds: every class with constant value v also contains (num v).
    Iterated, because a folded constant can make further terms foldable and further classes equal."""
    terms, eqs = list(terms), list(eqs)
    while True:
        C = Closure(terms, eqs, nnames, spare)
        val, conflict = const_values(C)
        new = False
        for c, v in val.items():
            n = ('num', v)
            if canon(n) in C.parent and C.find(canon(n)) == c: continue
            rep = next(g for u, g in C.U.items() if C.find(u) == c)
            if n not in terms: terms.append(n)
            eqs.append((rep, n)); new = True
        if not new:
            C.constval, C.const_conflict = val, conflict
            return C

WEIGHTS = {'AstSize': None, 'Depth': 'depth', 'Weighted': {'var': 1, 'app': 3, 'lam': 2, 'k': 5, 'u': 1, 'j': 4, 't3': 6, 's3': 7, 'm3': 9, 'at': 2, 'ta': 2, 'w4': 8, 'v4': 8, 'lt': 2}, 'WeightedF': {'f': 3, 'g': 2, 'h': 5, 'w': 7}}
def term_cost(t, cf):
    w = 1 if WEIGHTS[cf] is None else WEIGHTS[cf][t[0]]
    return w + sum(term_cost(a, cf) for kind, a in zip(SIG[t[0]], t[1:]) if kind == 'c')
def min_costs(C, cf):
    """least cost per universe class: fixpoint of cost(class) = min over its nodes of weight + sum of the children's class costs
    (every represented term is a combination of such nodes, so this is the minimum over ALL represented terms, not only the inserted ones)"""
    INF = float('inf'); cost = {}
    changed = True
    while changed:
        changed = False
        for u, g in C.U.items():
            if WEIGHTS[cf] == 'depth':
                tot = 1 + max([cost.get(C.cls(a), INF) for kind, a in zip(SIG[g[0]], g[1:]) if kind == 'c'] + [0])
            else:
                w = 1 if WEIGHTS[cf] is None else WEIGHTS[cf][g[0]]
                tot = w
                for kind, a in zip(SIG[g[0]], g[1:]):
                    if kind == 'c': tot += cost.get(C.cls(a), INF)
            c = C.find(u)
            if tot < cost.get(c, INF): cost[c] = tot; changed = True
    return cost
