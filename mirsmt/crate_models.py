"""Crate-specific glue for E2: the thread-local slot table, trait dispatch for hand-written impls,
static trait calls on type parameters, constants."""
import re
import z3
from .engine import *
from .models import M, It, call_fn, B, tolist

# hand-written impls win over the structural Clone / PartialEq / Ord models
def _handwritten(ex, c, args):
    try: name = ex.resolve_callee(c, args)
    except Unsupported: return None
    if isinstance(name, tuple): name = ex.resolver.resolve_dyn(name[1], name[2], args, name[3])
    if name and name in ex.resolver.handwritten: return name
    return None

def _wrap_first(handler_name):
    for i, (rx, fn, first, name) in enumerate(M.entries):
        if name == handler_name:
            def wrapped(ex, c, args, m, fn=fn):
                if _is_dyn(c): hw = _handwritten(ex, c, args)
                else:
                    hw = ex._hw_cache.get(c, 0)
                    if hw == 0: hw = ex._hw_cache[c] = _handwritten(ex, c, args)
                if hw: return ex.call(hw, args)
                return fn(ex, c, args, m)
            M.entries[i] = (rx, wrapped, first, name)
def _is_dyn(c):
    return re.match(r'^<&?(Self|[A-Z]\w?|CF) as ', c) is not None

_installed = False
def install(ex):
    global _installed
    ex._hw_cache = {}
    ex.table = {'tab': Struct({0: z3.BitVecVal(1, 32), 1: Opaque('named_vec'), 2: Opaque('named_map')}, 'SlotTable')}
    ex.typarams = ex.resolver.tymap
    if _installed: return
    _installed = True
    for n in ('m_clone', 'm_eq', 'm_cmp', 'm_ord_op'): _wrap_first(n)

@M.add(r'^(std::thread::)?LocalKey::<RefCell<(slot::)?SlotTable>>::with_borrow(_mut)?::<')
def m_slot_table(ex, c, args, m):
    return call_fn(ex, args[1], [Ref(ex.table, 'tab')])

M.consts[r'(^|::)CHECKS$'] = lambda ex, body: z3.BoolVal('checks' in ex.session.features)

@M.add(r'^<(N|Self) as (analysis::)?Analysis<L>>::modify$')
def m_modify_default(ex, c, args, m):
    name = ex.resolver.resolve_dyn('Analysis', 'modify', [], 'N')
    if name: return ex.call(name, args)
    return Unit()

@M.add(r'^<<N as (analysis::)?Analysis<L>>::Data as (PartialEq|Clone)>::(eq|ne|clone)$')
def m_data_ops(ex, c, args, m):
    a = dd(args[0])
    if m.group(3) == 'clone': return cp(a)
    e = val_eq(a, dd(args[1])); return e if m.group(3) == 'eq' else z3.Not(e)

@M.add(r'::new_boxed$', first=True)
def m_new_boxed(ex, c, args, m):
    # Box<dyn SubstMethod>: the unit struct of the chosen method; `S` is with_subst_method's type parameter (EGraph::new fixes it to SynExprSubst)
    mm = re.match(r'^<(?:[\w:]*::)?(\w+) as ', c)
    ty = mm.group(1) if mm and mm.group(1) not in ('S', 'Self') else ex.resolver.tymap.get('S', 'SynExprSubst')
    return boxed(Struct({}, ty))

M.consts[r'(^|::)SLOT_TABLE$'] = lambda ex, body: Opaque(('static', 'SLOT_TABLE'))

# payload children (bare_language_child!): one macro-generated impl per primitive type shares a single MIR name; modelled directly for u32
@M.add(r'^<u32 as (slotted_egraphs::|lang::)?LanguageChildren>::(\w+)$', front=True, first=True)
def m_u32_child(ex, c, args, m):
    op = m.group(2)
    if op == 'weak_shape_impl': return Unit()
    if op.endswith('_iter') or op.endswith('_iter_mut'): return It([])
    if op == 'to_syntax':
        v = dd(args[0])
        try: t = str(conc(v))
        except Unsupported: t = '<numeral>'       # a symbolic number: only the length of the syntax is looked at (parse.rs)
        return VecVal([Enum(ex.session.enums['SyntaxElem::String'], Struct({0: PyStr(t)}), 'SyntaxElem')])
    if op == 'from_syntax':
        return NotImplemented      # executed from the macro's MIR (parse_mir tells the per-type copies apart)
        sl = args[0]
        if len(sl) != 1: return none()
        e = dd(sl.lst[sl.start])
        if e.disc != ex.session.enums['SyntaxElem::String']: return none()
        t = str(dd(e.payload.f[0]))
        return some(z3.BitVecVal(int(t), 32)) if re.fullmatch(r'\+?\d+', t) and int(t) < 2**32 else none()
    return NotImplemented

# Symbol payloads: a symbol is its text (symbol_table interns; equality of symbols is equality of texts)
@M.add(r'^core::str::<impl str>::parse::<(symbol_table::)?(global::)?GlobalSymbol>$|^<(symbol_table::)?(global::)?GlobalSymbol as (From<&str>|FromStr)>::(from|from_str)$', front=True, first=True)
def m_symbol_parse(ex, c, args, m):
    v = Struct({0: dd(args[0])}, 'GlobalSymbol')
    return ok(v) if 'parse' in c or 'from_str' in c else v
@M.add(r'^<(symbol_table::)?(global::)?GlobalSymbol as (PartialEq|Clone)>::(eq|ne|clone)$', front=True, first=True)
def m_symbol_eq(ex, c, args, m):
    if m.group(4) == 'clone': return dd(args[0])
    from .strings import SStr, lit, seq_eq
    a, b = dd(dd(args[0]).f[0]), dd(dd(args[1]).f[0])
    if isinstance(a, SStr) or isinstance(b, SStr): e = seq_eq(lit(a), lit(b))
    else: e = z3.BoolVal(str(a) == str(b))
    return e if m.group(4) == 'eq' else z3.Not(e)
@M.add(r'^<(symbol_table::)?(global::)?GlobalSymbol as ToString>::to_string$|^(symbol_table::)?(global::)?GlobalSymbol::as_str$', front=True, first=True)
def m_symbol_to_string(ex, c, args, m): return dd(dd(args[0]).f[0])
