// natdiff: runs template histories with CONCRETE slot names against the real crate (linked from /repo)
// and prints the same observation records the symbolic executor produces. Used for translator validation
// (every symbolic record is compared with a native run of one of its models) and for replaying counterexamples.
// Only the crate's public API is used.
#![allow(dead_code, unused_imports, non_snake_case)]
use std::collections::{BTreeMap, HashMap};
use std::io::{BufRead, Write};
use std::panic::{catch_unwind, AssertUnwindSafe};

mod langs {
    include!(concat!(env!("VERIF_DIR"), "/mirsmt/lang/src/lib.rs"));
}
use langs::*;
use slotted_egraphs::*;

#[derive(Clone, Debug, PartialEq, Eq, Hash, PartialOrd, Ord)]
enum Term { Node(String, Vec<Arg>) }
#[derive(Clone, Debug, PartialEq, Eq, Hash, PartialOrd, Ord)]
enum Arg { Name(usize), Child(Box<Term>), Num(u32) }

fn parse_term(toks: &[String], pos: &mut usize) -> Term {
    assert_eq!(toks[*pos], "("); *pos += 1;
    let op = toks[*pos].clone(); *pos += 1;
    let mut args = Vec::new();
    while toks[*pos] != ")" {
        if toks[*pos] == "(" { args.push(Arg::Child(Box::new(parse_term(toks, pos)))); }
        else if let Some(x) = toks[*pos].strip_prefix('#') { args.push(Arg::Num(x.parse().unwrap())); *pos += 1; }
        else { args.push(Arg::Name(toks[*pos].parse().unwrap())); *pos += 1; }
    }
    *pos += 1;
    Term::Node(op, args)
}
fn tokenize(s: &str) -> Vec<String> {
    s.replace('(', " ( ").replace(')', " ) ").split_whitespace().map(|x| x.to_string()).collect()
}

fn slot_of_value(v: u32) -> Slot {
    match v % 4 {
        0 => Slot::numeric(v / 4),
        1 => Slot::named(&format!("f{}", (v - 1) / 4)),
        2 => Slot::named(&format!("n{}", (v - 2) / 4)),
        _ => panic!("natdiff: slot value {} is in the unused residue class", v),
    }
}
fn value_of_slot(s: Slot) -> u32 {
    let t = s.to_string();
    let t = &t[1..];
    if let Ok(x) = t.parse::<u32>() { return x * 4; }
    if let Some(r) = t.strip_prefix('f') { if let Ok(x) = r.parse::<u32>() { return x * 4 + 1; } }
    if let Some(r) = t.strip_prefix('n') { if let Ok(x) = r.parse::<u32>() { return x * 4 + 2; } }
    panic!("natdiff: unexpected slot text {}", t)
}

struct Run<L: Language, N: Analysis<L>> {
    eg: EGraph<L, N>,
    names: Vec<u32>,
    late: Vec<usize>,      // late[i] = index of the operation that first writes name i (0 = from the start)
    step: usize,
    handles: Vec<(Term, Option<AppliedId>)>,
    out: Vec<String>,
    with_data: bool,
    dump: bool,
}

/// Debug text of an analysis datum -> JSON (integers as they are, Option<u32> as the number or "none")
fn data_json(d: String) -> String {
    if d == "None" { return "\"none\"".to_string(); }
    if let Some(r) = d.strip_prefix("Some(") { return r.trim_end_matches(')').to_string(); }
    d
}
fn jstr(s: &str) -> String {
    let mut o = String::from("\"");
    for c in s.chars() {
        match c { '\\' => o.push_str("\\\\"), '"' => o.push_str("\\\""), c if (c as u32) < 0x20 || c == '\u{7f}' || (c as u32 >= 0x2028 && c as u32 <= 0x2029) => o.push_str(&format!("\\u{:04x}", c as u32)), c => o.push(c) }
    }
    o.push('"'); o
}

trait LangExt: Language + Sized + 'static {
    fn extract_with<N: Analysis<Self> + 'static>(r: &Run<Self, N>, cf: &str, h: &AppliedId) -> String where N::Data: std::fmt::Debug;
    fn cond_rule<N: Analysis<Self> + 'static>(_name: &str, _l: &str, _r: &str, cond: &str, _x: Slot) -> Rewrite<Self, N> { panic!("natdiff: no condition {} for this language", cond) }
}
impl LangExt for Lm {
    fn extract_with<N: Analysis<Self> + 'static>(r: &Run<Self, N>, cf: &str, h: &AppliedId) -> String where N::Data: std::fmt::Debug {
        match cf { "AstSize" => r.extract_generic::<AstSize>(cf, h), _ => panic!("natdiff: cost function") }
    }
    fn cond_rule<N: Analysis<Self> + 'static>(name: &str, l: &str, r: &str, cond: &str, x: Slot) -> Rewrite<Self, N> {
        match cond { "cond_b_independent_of" => Rewrite::new_if(name, l, r, cond_b_independent_of::<N>(x)), _ => panic!("natdiff: unknown condition {}", cond) }
    }
}
impl LangExt for La {
    fn extract_with<N: Analysis<Self> + 'static>(r: &Run<Self, N>, cf: &str, h: &AppliedId) -> String where N::Data: std::fmt::Debug {
        match cf { "AstSize" => r.extract_generic::<AstSize>(cf, h), _ => panic!("natdiff: cost function") }
    }
}
impl LangExt for Lf {
    fn extract_with<N: Analysis<Self> + 'static>(r: &Run<Self, N>, cf: &str, h: &AppliedId) -> String where N::Data: std::fmt::Debug {
        match cf { "AstSize" => r.extract_generic::<AstSize>(cf, h), "WeightedF" => r.extract_generic::<WeightedF>(cf, h), _ => panic!("natdiff: cost function") }
    }
}
impl LangExt for Lb {
    fn extract_with<N: Analysis<Self> + 'static>(r: &Run<Self, N>, cf: &str, h: &AppliedId) -> String where N::Data: std::fmt::Debug {
        match cf { "AstSize" => r.extract_generic::<AstSize>(cf, h), "Weighted" => r.extract_generic::<Weighted>(cf, h), _ => panic!("natdiff: cost function") }
    }
}

impl<L: LangExt, N: Analysis<L> + 'static> Run<L, N> where N::Data: std::fmt::Debug {
    fn extract_with(&self, cf: &str, h: &AppliedId) -> String { L::extract_with(self, cf, h) }
    fn name_of(&self, s: Slot) -> String {
        let v = value_of_slot(s);
        for (i, n) in self.names.iter().enumerate() { if *n == v && (self.late[i] == usize::MAX || self.late[i] < self.step) { return i.to_string(); } }
        format!("x{}", v)
    }
    fn node(&self, t: &Term) -> L {
        let Term::Node(op, args) = t;
        let mut elems = if op == "num" { vec![] } else { vec![SyntaxElem::String(op.clone())] };
        for a in args {
            match a {
                Arg::Name(i) => elems.push(SyntaxElem::Slot(slot_of_value(self.names[*i]))),
                Arg::Child(c) => elems.push(SyntaxElem::AppliedId(self.handle(c).expect("child handle"))),
                Arg::Num(x) => elems.push(SyntaxElem::String(x.to_string())),
            }
        }
        L::from_syntax(&elems).expect("from_syntax")
    }
    fn handle(&self, t: &Term) -> Option<AppliedId> {
        self.handles.iter().find(|(x, _)| x == t).and_then(|(_, h)| h.clone())
    }
    fn add(&mut self, t: &Term) -> AppliedId {
        let Term::Node(_, args) = t;
        for a in args { if let Arg::Child(c) = a { if self.handle(c).is_none() { self.add(c); } } }
        let n = self.node(t);
        let h = self.eg.add(n);
        if !self.handles.iter().any(|(x, _)| x == t) { self.handles.push((t.clone(), Some(h.clone()))); }
        h
    }
    fn pat_text(&self, toks: &[String], pos: &mut usize) -> String {
        // pattern s-expression over name indices and ?vars -> pattern text with real slot names
        if toks[*pos] != "(" { let t = toks[*pos].clone(); *pos += 1; return if t.starts_with('?') { t } else { slot_of_value(self.names[t.parse::<usize>().unwrap()]).to_string() }; }
        *pos += 1;
        if toks[*pos] == "subst" {      // (subst b x t) -> b[x := t]
            *pos += 1;
            let b = self.pat_text(toks, pos); let x = self.pat_text(toks, pos); let t = self.pat_text(toks, pos);
            *pos += 1;
            return format!("{}[{} := {}]", b, x, t);
        }
        let mut out = format!("({}", toks[*pos]); *pos += 1;
        while toks[*pos] != ")" { out.push(' '); out.push_str(&self.pat_text(toks, pos)); }
        *pos += 1; out.push(')'); out
    }
    fn lookup_pattern(&self, p: &Pattern<L>, sub: &Subst) -> Option<AppliedId> {
        match p {
            Pattern::PVar(v) => sub.get(v).cloned(),
            Pattern::ENode(n, cs) => {
                let mut n = n.clone();
                let mut kids = Vec::new();
                for c in cs { kids.push(self.lookup_pattern(c, sub)?); }
                for (r, k) in n.applied_id_occurrences_mut().into_iter().zip(kids.into_iter()) { *r = k; }
                self.eg.lookup(&n)
            }
            Pattern::Subst(..) => None,
        }
    }
    fn lookup_full(&self, t: &Term) -> Option<AppliedId> {
        if let Some(h) = self.handle(t) { return Some(h); }
        let Term::Node(op, args) = t;
        let mut elems = if op == "num" { vec![] } else { vec![SyntaxElem::String(op.clone())] };
        for a in args {
            match a {
                Arg::Name(i) => elems.push(SyntaxElem::Slot(slot_of_value(self.names[*i]))),
                Arg::Child(c) => elems.push(SyntaxElem::AppliedId(self.lookup_full(c)?)),
                Arg::Num(x) => elems.push(SyntaxElem::String(x.to_string())),
            }
        }
        let n = L::from_syntax(&elems).expect("from_syntax");
        self.eg.lookup(&n)
    }
    fn describe(&self, h: &AppliedId) -> String {
        let c = self.eg.find_applied_id(h);
        let mut vals: Vec<String> = c.m.iter().map(|(_, v)| { let n = self.name_of(v); if n.starts_with('x') { "fresh".to_string() } else { n } }).collect(); vals.sort();
        format!("{{\"id\":{},\"vals\":[{}]}}", c.id.0, vals.iter().map(|x| jstr(x)).collect::<Vec<_>>().join(","))
    }
    fn show_rec(&self, re: &RecExpr<L>) -> String {
        let syn = re.node.to_syntax();
        let mut out = Vec::new(); let mut ci = 0;
        for e in syn {
            match e {
                SyntaxElem::String(s) => out.push(jstr(&s)),
                SyntaxElem::Slot(s) => { let n = self.name_of(s); out.push(jstr(if n.starts_with('x') { "fresh" } else { &n })); }
                SyntaxElem::AppliedId(_) => { out.push(self.show_rec(&re.children[ci])); ci += 1; }
            }
        }
        format!("[{}]", out.join(","))
    }
    fn rec_expr(&self, t: &Term) -> RecExpr<L> {
        let Term::Node(op, args) = t;
        let mut elems = if op == "num" { vec![] } else { vec![SyntaxElem::String(op.clone())] };
        let mut children = Vec::new();
        for a in args {
            match a {
                Arg::Name(i) => elems.push(SyntaxElem::Slot(slot_of_value(self.names[*i]))),
                Arg::Child(c) => { children.push(self.rec_expr(c)); elems.push(SyntaxElem::AppliedId(AppliedId::new(Id(0), SlotMap::new()))); }
                Arg::Num(x) => elems.push(SyntaxElem::String(x.to_string())),
            }
        }
        RecExpr { node: L::from_syntax(&elems).expect("from_syntax"), children }
    }
    /// term with every slot labelled by its template name or x<value> (internal slots keep their identity)
    fn show_rec_exact(&self, re: &RecExpr<L>) -> String {
        let mut out = Vec::new(); let mut ci = 0;
        for e in re.node.to_syntax() {
            match e {
                SyntaxElem::String(s) => out.push(jstr(&s)),
                SyntaxElem::Slot(s) => out.push(jstr(&self.name_of(s))),
                SyntaxElem::AppliedId(_) => { out.push(self.show_rec_exact(&re.children[ci])); ci += 1; }
            }
        }
        format!("[{}]", out.join(","))
    }
    #[cfg(not(natdiff_explanations))]
    fn explain(&mut self, _a: &Term, _b: &Term) -> String { panic!("natdiff: built without explanations") }
    #[cfg(natdiff_explanations)]
    fn explain(&mut self, a: &Term, b: &Term) -> String {
        // C07: the proof DAG returned by explain_equivalence, every equation written out on terms (get_syn_expr): public API only
        let (ra, rb) = (self.rec_expr(a), self.rec_expr(b));
        let prf = self.eg.explain_equivalence(ra, rb);
        let mut index: HashMap<*const ProvenEqRaw, usize> = HashMap::new();
        let mut nodes: Vec<String> = Vec::new();
        fn visit<L: LangExt, N: Analysis<L> + 'static>(r: &Run<L, N>, p: &ProvenEq, index: &mut HashMap<*const ProvenEqRaw, usize>, nodes: &mut Vec<String>) -> usize where N::Data: std::fmt::Debug {
            let key = std::sync::Arc::as_ptr(p);
            if let Some(k) = index.get(&key) { return *k; }
            let k = nodes.len(); index.insert(key, k); nodes.push(String::new());
            let (rule, prem, just): (&str, Vec<usize>, Option<String>) = match p.proof() {
                Proof::Explicit(ExplicitProof(j)) => ("explicit", vec![], j.clone()),
                Proof::Reflexivity(_) => ("refl", vec![], None),
                Proof::Symmetry(SymmetryProof(x)) => ("sym", vec![visit(r, x, index, nodes)], None),
                Proof::Transitivity(TransitivityProof(x, y)) => { let a = visit(r, x, index, nodes); let b = visit(r, y, index, nodes); ("trans", vec![a, b], None) }
                Proof::Congruence(CongruenceProof(v)) => ("cong", v.iter().map(|x| visit(r, x, index, nodes)).collect(), None),
            };
            let eq = p.equ();
            nodes[k] = format!("{{\"rule\":{},\"l\":{},\"r\":{},\"prem\":[{}],\"just\":{}}}", jstr(rule), r.show_rec_exact(&r.eg.get_syn_expr(&eq.l)), r.show_rec_exact(&r.eg.get_syn_expr(&eq.r)),
                prem.iter().map(|x| x.to_string()).collect::<Vec<_>>().join(","), match &just { Some(j) => jstr(j), None => "null".to_string() });
            k
        }
        let root = visit(self, &prf, &mut index, &mut nodes);
        format!(",\"explain\":{{\"root\":{},\"nodes\":[{}]}}", root, nodes.join(","))
    }
    fn extract_generic<CF: CostFunction<L, Cost = u64> + Default>(&self, name: &str, h: &AppliedId) -> String {
        let ext = Extractor::<L, CF>::new(&self.eg, CF::default());
        let re = ext.extract(h, &self.eg);
        let cost = ext.get_best_cost::<N>(&self.eg.find_applied_id(h));
        let lk = lookup_rec_expr(&re, &self.eg);
        let fr = extract::<L, N, CF>(h, &self.eg);
        let lk2 = lookup_rec_expr(&fr, &self.eg);
        format!(",\"extract\":{{\"cf\":{},\"cost\":{},\"term\":{},\"lookup_some\":{},\"lookup_eq\":{},\"free_term\":{},\"free_lookup_some\":{},\"free_lookup_eq\":{}}}", jstr(name), cost, self.show_rec(&re), lk.is_some(),
            match &lk { Some(a) => self.eg.eq(a, h).to_string(), None => "null".to_string() }, self.show_rec(&fr), lk2.is_some(),
            match &lk2 { Some(a) => self.eg.eq(a, h).to_string(), None => "null".to_string() })
    }
    fn mmatch(&self, text: &str, parts: &[(String, String)]) -> String {
        let Some(eg0) = (&self.eg as &dyn std::any::Any).downcast_ref::<EGraph<L, ()>>() else { return ",\"mmatch\":null".to_string() };
        let mp = MultiPattern::<L>::parse(text).expect("multipattern text");
        let before = (eg0.progress().number_of_classes, eg0.progress().number_of_live_classes, eg0.progress().sum_of_slots, eg0.progress().sum_of_symmetries, eg0.total_number_of_nodes());
        let ms = multi_ematch(&mp, eg0);
        let after = (eg0.progress().number_of_classes, eg0.progress().number_of_live_classes, eg0.progress().sum_of_slots, eg0.progress().sum_of_symmetries, eg0.total_number_of_nodes());
        let mut items: Vec<String> = Vec::new();
        for sub in &ms {
            let mut bound: Vec<String> = sub.keys().cloned().collect(); bound.sort();
            let mut holds = Vec::new();
            for (v, ptxt) in parts {
                let pat = Pattern::<L>::parse(ptxt).expect("pattern");
                let inst = self.lookup_pattern(&pat, sub);
                let lhs = sub.get(&v[1..]);
                holds.push(match (inst, lhs) { (Some(i), Some(l)) => self.eg.eq(&i, l), _ => false }.to_string());
            }
            items.push(format!("{{\"bound\":[{}],\"equations_hold\":[{}]}}", bound.iter().map(|x| jstr(x)).collect::<Vec<_>>().join(","), holds.join(",")));
        }
        items.sort();
        format!(",\"mmatch\":{{\"matches\":[{}],\"unchanged\":{}}}", items.join(","), before == after)
    }
    fn group_count(&self, id: Id) -> usize {
        // number of permutations pi of the class's slots with eq(identity invocation, permuted invocation): public API only
        let slots: Vec<Slot> = self.eg.slots(id).iter().cloned().collect();
        let ident = self.eg.mk_identity_applied_id(id);
        let mut cnt = 0;
        let mut idx: Vec<usize> = (0..slots.len()).collect();
        permute(&mut idx, 0, &mut |p: &[usize]| {
            let mut m = SlotMap::new();
            for (i, s) in slots.iter().enumerate() { m.insert(*s, slots[p[i]]); }
            if self.eg.eq(&ident, &AppliedId::new(id, m)) { cnt += 1; }
        });
        cnt
    }
    fn snapshot(&mut self, op: &str, extra: &str) { self.snapshot2(op, extra, true) }
    fn snapshot2(&mut self, op: &str, extra: &str, with_check: bool) {
        let eg = &self.eg;
        let mut s = String::new();
        s.push_str(&format!("{{\"op\":{}", jstr(op)));
        let mut canon = Vec::new();
        for (_, h) in &self.handles {
            let Some(h) = h else { canon.push("null".to_string()); continue; };
            let c = eg.find_applied_id(h);
            let c2 = eg.find_applied_id(&c);
            let mut vals: Vec<String> = c.m.iter().map(|(_, v)| self.name_of(v)).collect(); vals.sort();
            let mut map: Vec<(String, String)> = c.m.iter().map(|(k, v)| (self.name_of(k), self.name_of(v))).collect(); map.sort();
            let mut hvals: Vec<String> = h.m.iter().map(|(_, v)| self.name_of(v)).collect(); hvals.sort();
            let hdata = if self.with_data { format!(",\"hdata\":{}", data_json(format!("{:?}", eg.analysis_data(h.id)))) } else { String::new() };
            canon.push(format!("{{\"id\":{},\"idem\":{},\"nslots\":{},\"vals\":[{}],\"map\":[{}],\"hvals\":[{}]{}}}", c.id.0, c == c2, c.m.len(),
                vals.iter().map(|x| jstr(x)).collect::<Vec<_>>().join(","),
                map.iter().map(|(k, v)| format!("[{},{}]", jstr(k), jstr(v))).collect::<Vec<_>>().join(","),
                hvals.iter().map(|x| jstr(x)).collect::<Vec<_>>().join(","), hdata));
        }
        s.push_str(&format!(",\"canon\":[{}]", canon.join(",")));
        let rows: Vec<String> = self.handles.iter().map(|(_, a)| format!("[{}]", self.handles.iter().map(|(_, b)| match (a, b) { (Some(a), Some(b)) => eg.eq(a, b).to_string(), _ => "false".to_string() }).collect::<Vec<_>>().join(","))).collect();
        s.push_str(&format!(",\"eq\":[{}]", rows.join(",")));
        let ids = eg.ids();
        s.push_str(&format!(",\"live\":[{}]", ids.iter().map(|i| i.0.to_string()).collect::<Vec<_>>().join(",")));
        s.push_str(&format!(",\"nodes\":{}", eg.total_number_of_nodes()));
        let p = eg.progress();
        s.push_str(&format!(",\"progress\":[{},{},{},{}]", p.number_of_classes, p.number_of_live_classes, p.sum_of_slots, p.sum_of_symmetries));
        let mut cls = Vec::new();
        for i in &ids {
            let mut e = format!("\"{}\":{{\"nslots\":{},\"gcount\":{}", i.0, eg.slots(*i).len(), self.group_count(*i));
            if self.with_data {
                e.push_str(&format!(",\"data\":{}", data_json(format!("{:?}", eg.analysis_data(*i)))));
                let mut acc: Option<N::Data> = None;
                for n in eg.enodes(*i) { let v = N::make(eg, &n); acc = Some(match acc { None => v, Some(a) => N::merge(a, v) }); }
                e.push_str(&format!(",\"data_fix\":{}", match &acc { Some(a) => data_json(format!("{:?}", a)), None => "null".to_string() }));
            }
            e.push('}'); cls.push(e);
        }
        s.push_str(&format!(",\"classes\":{{{}}}", cls.join(",")));
        if self.dump {
            let mut cs = Vec::new();
            for i in &ids {
                let ident = eg.mk_identity_applied_id(*i);
                let slots: Vec<String> = ident.m.iter().map(|(_, v)| jstr(&self.name_of(v))).collect();
                let mut nodes = Vec::new();
                for n in eg.enodes_applied(&ident) {
                    let mut parts = Vec::new();
                    for e in n.to_syntax() {
                        match e {
                            SyntaxElem::String(x) => parts.push(jstr(&x)),
                            SyntaxElem::Slot(x) => parts.push(jstr(&self.name_of(x))),
                            SyntaxElem::AppliedId(a) => parts.push(format!("{{\"id\":{},\"map\":[{}]}}", a.id.0, a.m.iter().map(|(k, v)| format!("[{},{}]", jstr(&self.name_of(k)), jstr(&self.name_of(v)))).collect::<Vec<_>>().join(","))),
                        }
                    }
                    nodes.push(format!("[{}]", parts.join(",")));
                }
                cs.push(format!("\"{}\":{{\"slots\":[{}],\"nodes\":[{}]}}", i.0, slots.join(","), nodes.join(",")));
            }
            s.push_str(&format!(",\"dump\":{{{}}}", cs.join(",")));
        }
        // the crate's own consistency check, then the listed conditions
        let chk = if with_check { catch_unwind(AssertUnwindSafe(|| eg.check())) } else { Ok(()) };
        let mut bad: Vec<String> = Vec::new();
        if chk.is_ok() && with_check {
            for i in &ids {
                let sl = eg.slots(*i);
                for n in eg.enodes(*i) {
                    match eg.lookup(&n) { Some(a) if a.id == *i => {}, _ => bad.push(format!("[\"lookup\",{}]", i.0)) }
                    let ns = n.slots();
                    for s_ in sl.iter() { if !ns.contains(s_) { bad.push(format!("[\"slots\",{}]", i.0)); } }
                }
            }
        }
        if with_check { s.push_str(&format!(",\"check\":{{\"check\":{}{}}}", if chk.is_ok() { jstr("ok") } else { jstr("panic") },
            if bad.is_empty() { String::new() } else { format!(",\"consistency\":[{}]", bad.join(",")) })); }
        s.push_str(extra);
        s.push('}');
        self.out.push(s);
    }
}

fn permute(v: &mut Vec<usize>, k: usize, f: &mut dyn FnMut(&[usize])) {
    if k == v.len() { f(v); return; }
    for i in k..v.len() { v.swap(k, i); permute(v, k + 1, f); v.swap(k, i); }
}

fn run_history<L: LangExt, N: Analysis<L> + Default + 'static>(names: Vec<u32>, late: Vec<usize>, ops: &[String], with_data: bool, light: bool) -> (Vec<String>, Option<String>) where N::Data: std::fmt::Debug {
    run_history_opts::<L, N>(names, late, ops, with_data, light, false, "")
}
fn run_history_opts<L: LangExt, N: Analysis<L> + Default + 'static>(names: Vec<u32>, late: Vec<usize>, ops: &[String], with_data: bool, light: bool, dump: bool, subst: &str) -> (Vec<String>, Option<String>) where N::Data: std::fmt::Debug {
    let eg0 = match subst { "ExtractionSubst" => EGraph::with_subst_method::<ExtractionSubst>(N::default()), "SynExprSubst" => EGraph::with_subst_method::<SynExprSubst>(N::default()), _ => EGraph::new(N::default()) };
    let mut r: Run<L, N> = Run { eg: eg0, names, late, step: 0, handles: Vec::new(), out: Vec::new(), with_data, dump };
    let mut panic_msg = None;
    r.snapshot2("new", "", !light);
    let nops = ops.len();
    for (opi, line) in ops.iter().enumerate() {
        let toks = tokenize(line);
        r.step = opi + 1;
        let res = catch_unwind(AssertUnwindSafe(|| {
            let mut extra = String::new();
            match toks[0].as_str() {
                "add" => { let mut p = 1; let t = parse_term(&toks, &mut p); r.add(&t); }
                "union" => {
                    let mut p = 1; let a = parse_term(&toks, &mut p); let b = parse_term(&toks, &mut p);
                    let (ha, hb) = (r.handle(&a).expect("union of a term without handle"), r.handle(&b).expect("union of a term without handle"));
                    let ret = match line.split('|').nth(1) { Some(j) => r.eg.union_justified(&ha, &hb, Some(j.trim().to_string())), None => r.eg.union(&ha, &hb) };
                    extra = format!(",\"union_ret\":{}", ret);
                }
                "readd" => {
                    let mut p = 1; let t = parse_term(&toks, &mut p);
                    let before = r.eg.progress().number_of_classes;
                    let Term::Node(_, args) = &t;
                    let have_children = args.iter().all(|a| match a { Arg::Child(c) => r.handle(c).is_some(), _ => true });
                    let lk = if have_children { let n = r.node(&t); r.eg.lookup(&n) } else { None };
                    let n = r.node(&t);
                    let h = r.eg.add(n);
                    let delta = r.eg.progress().number_of_classes - before;
                    let old = r.handle(&t);
                    let names = |a: &AppliedId| { let mut v: Vec<String> = a.m.iter().map(|(_, v)| jstr(&r.name_of(v))).collect(); v.sort(); format!("[{}]", v.join(",")) };
                    extra = format!(",\"readd\":{{\"lookup_some\":{},\"alloc_delta\":{},\"eq_old\":{},\"lookup_eq_add\":{},\"ret_vals\":{},\"lk_vals\":{}}}", lk.is_some(), delta,
                        match &old { Some(o) => r.eg.eq(&h, o).to_string(), None => "null".to_string() },
                        match &lk { Some(l) => r.eg.eq(l, &h).to_string(), None => "null".to_string() },
                        names(&h), match &lk { Some(l) => names(l), None => "null".to_string() });
                }
                "probe" => {
                    let mut p = 1; let t = parse_term(&toks, &mut p);
                    let h = r.lookup_full(&t);
                    extra = format!(",\"probe\":{{\"found\":{}}}", h.is_some());
                    if !r.handles.iter().any(|(x, _)| *x == t) { r.handles.push((t.clone(), h)); }
                }
                "ematch" => {
                    let mut p = 1; let txt = r.pat_text(&toks, &mut p);
                    let pat = Pattern::<L>::parse(&txt).expect("pattern text");
                    let before = (r.eg.progress().number_of_classes, r.eg.progress().number_of_live_classes, r.eg.progress().sum_of_slots, r.eg.progress().sum_of_symmetries, r.eg.total_number_of_nodes());
                    let ms = ematch_all(&r.eg, &pat);
                    let after = (r.eg.progress().number_of_classes, r.eg.progress().number_of_live_classes, r.eg.progress().sum_of_slots, r.eg.progress().sum_of_symmetries, r.eg.total_number_of_nodes());
                    let mut items: Vec<String> = Vec::new();
                    for sub in &ms {
                        let mut bound: Vec<String> = sub.keys().cloned().collect(); bound.sort();
                        let inst = r.lookup_pattern(&pat, sub);
                        let mut binds: Vec<(String, String)> = sub.iter().map(|(k, v)| (k.clone(), r.describe(v))).collect(); binds.sort();
                        items.push(format!("{{\"binds\":{{{}}},\"bound\":[{}],\"found\":{},\"inst\":{}}}", binds.iter().map(|(k, v)| format!("{}:{}", jstr(k), v)).collect::<Vec<_>>().join(","),
                            bound.iter().map(|x| jstr(x)).collect::<Vec<_>>().join(","), inst.is_some(), match &inst { Some(i) => r.describe(i), None => "null".to_string() }));
                    }
                    extra = format!(",\"ematch\":{{\"unchanged\":{},\"matches\":[{}]}}", before == after, items.join(","));
                }
                "mmatch" => {
                    // mmatch ?v | node-pattern ; ?v | node-pattern ...
                    let rest = line["mmatch".len()..].to_string();
                    let mut parts: Vec<(String, String)> = Vec::new();
                    for part in rest.split(';') {
                        let f: Vec<&str> = part.split('|').collect();
                        if f.len() != 2 { continue; }
                        let pt = tokenize(f[1]); let mut p1 = 0;
                        parts.push((f[0].trim().to_string(), r.pat_text(&pt, &mut p1)));
                    }
                    let text = parts.iter().map(|(v, p)| format!("{} == {}", v, p)).collect::<Vec<_>>().join(", ");
                    extra = r.mmatch(&text, &parts);
                }
                "explain" => {
                    let mut p = 1; let a = parse_term(&toks, &mut p); let b = parse_term(&toks, &mut p);
                    extra = r.explain(&a, &b);
                }
                "extract" => {
                    let mut p = 2; let t = parse_term(&toks, &mut p);
                    let h = r.handle(&t).expect("extract of a term without handle");
                    extra = r.extract_with(&toks[1], &h);
                }
                "rewrite" => {
                    // rewrite name | lhs | rhs ; name | lhs | rhs ...
                    let rest = line["rewrite".len()..].to_string();
                    let mut rws: Vec<Rewrite<L, N>> = Vec::new();
                    for part in rest.split(';') {
                        let f: Vec<&str> = part.split('|').collect();
                        if f.len() != 3 && f.len() != 4 { continue; }
                        let (lt, rt) = (tokenize(f[1]), tokenize(f[2]));
                        let (mut p1, mut p2) = (0, 0);
                        let (l, rr) = (r.pat_text(&lt, &mut p1), r.pat_text(&rt, &mut p2));
                        if f.len() == 4 {      // name | lhs | rhs | <condition> <name index>
                            let c: Vec<&str> = f[3].split_whitespace().collect();
                            rws.push(L::cond_rule::<N>(f[0].trim(), &l, &rr, c[0], slot_of_value(r.names[c[1].parse::<usize>().unwrap()])));
                        } else { rws.push(Rewrite::new(f[0].trim(), &l, &rr)); }
                    }
                    let ret = apply_rewrites(&mut r.eg, &rws);
                    extra = format!(",\"rewrite_ret\":{}", ret);
                }
                x => panic!("natdiff: unknown op {}", x),
            }
            r.snapshot2(line, &extra, !light || opi + 1 == nops);
        }));
        if let Err(e) = res {
            let msg = if let Some(s) = e.downcast_ref::<String>() { s.clone() } else if let Some(s) = e.downcast_ref::<&str>() { s.to_string() } else { "panic".to_string() };
            panic_msg = Some(msg); break;
        }
    }
    (r.out, panic_msg)
}

fn main() {
    std::panic::set_hook(Box::new(|_| {}));
    // every case runs in its own thread so that the thread-local slot table starts fresh
    let stdin = std::io::stdin();
    let mut lines: Vec<String> = stdin.lock().lines().map(|l| l.unwrap()).collect();
    lines.push("end".to_string());
    let mut cur: Vec<String> = Vec::new();
    let stdout = std::io::stdout();
    for l in lines {
        if l.trim().is_empty() { continue; }
        if l.starts_with("case ") || l == "end" {
            if !cur.is_empty() {
                let case = cur.clone();
                let res = std::thread::Builder::new().stack_size(64 << 20).spawn(move || run_case(&case)).unwrap().join();
                let mut o = stdout.lock();
                match res { Ok(s) => writeln!(o, "{}", s).unwrap(), Err(_) => writeln!(o, "{{\"error\":\"case thread panicked\"}}").unwrap() }
            }
            cur.clear();
        }
        if l != "end" { cur.push(l); }
    }
}

fn run_slot_case(case: &[String]) -> String {
    // slotcase <id> ; ops: fresh | named <text> | numeric <k> | show <index of earlier result>
    let head: Vec<&str> = case[0].split_whitespace().collect();
    let mut res: Vec<Slot> = Vec::new();
    let mut out: Vec<String> = Vec::new();
    let mut panic_msg: Option<String> = None;
    for line in &case[1..] {
        let t: Vec<&str> = line.split_whitespace().collect();
        let r = catch_unwind(AssertUnwindSafe(|| match t[0] {
            "fresh" => Some(Slot::fresh()),
            "named" => Some(Slot::named(t.get(1).copied().unwrap_or(""))),
            "numeric" => Some(Slot::numeric(t[1].parse().unwrap())),
            "roundtrip" => { let i: usize = t[1].parse().unwrap(); let txt = res[i].to_string(); Some(Slot::named(&txt[1..])) }
            _ => panic!("natdiff: unknown slot op"),
        }));
        match r {
            Ok(Some(s)) => { res.push(s); }
            Ok(None) => {}
            Err(e) => { panic_msg = Some(if let Some(s) = e.downcast_ref::<String>() { s.clone() } else if let Some(s) = e.downcast_ref::<&str>() { s.to_string() } else { "panic".to_string() }); break; }
        }
    }
    for s in &res { out.push(jstr(&s.to_string())); }
    let mut eqs = Vec::new();
    for i in 0..res.len() { for j in (i + 1)..res.len() { if res[i] == res[j] { eqs.push(format!("[{},{}]", i, j)); } } }
    format!("{{\"case\":{},\"slots\":[{}],\"equal_pairs\":[{}],\"panic\":{}}}", jstr(head[1]), out.join(","), eqs.join(","), match panic_msg { Some(m) => jstr(&m), None => "null".to_string() })
}

fn wf_pattern<L: Language>(p: &Pattern<L>) -> bool {
    match p {
        Pattern::ENode(n, cs) => n.applied_id_occurrences().len() == cs.len() && cs.iter().all(|c| wf_pattern(c)),
        Pattern::PVar(_) => true,
        Pattern::Subst(a, b, c) => wf_pattern(a) && wf_pattern(b) && wf_pattern(c),
    }
}
fn parse_one<L: Language + 'static>(kind: &str, text: &str) -> String {
    let r = catch_unwind(AssertUnwindSafe(|| match kind {
        "pattern" => match Pattern::<L>::parse(text) { Ok(p) => format!("ok wf={} {}", wf_pattern(&p), p), Err(_) => "err".to_string() },
        "recexpr" => match RecExpr::<L>::parse(text) { Ok(p) => format!("ok wf=true {}", p), Err(_) => "err".to_string() },
        "slottok" => {
            // the text is one slot token "$name": the slot the parser produces for it (inside the first one-slot operator of the language) against Slot::named(name)
            let op = match std::any::type_name::<L>().rsplit("::").next().unwrap() { "Lb" => "var", "Lp" => "pv", _ => "var" };
            match Pattern::<L>::parse(&format!("({} {})", op, text)) {
                Ok(Pattern::ENode(n, _)) => { let ss = n.all_slot_occurrences(); if ss.len() == 1 && text.starts_with('$') { let want = Slot::named(&text[1..]); if ss[0] == want { format!("ok same {}", ss[0]) } else { format!("ok differs parsed={} named={}", ss[0], want) } } else { "err".to_string() } }
                _ => "err".to_string(),
            }
        }
        "multi" => match MultiPattern::<L>::parse(text) { Ok(p) => format!("ok wf=true {}", p), Err(_) => "err".to_string() },
        "roundtrip" => match Pattern::<L>::parse(text) { Ok(p) => { let t2 = p.to_string(); match Pattern::<L>::parse(&t2) { Ok(p2) => format!("ok same={} {}", p2.to_string() == t2 && p2 == p, t2), Err(_) => format!("reparse-err {}", t2) } }, Err(_) => "err".to_string() },
        "multirt" => match MultiPattern::<L>::parse(text) { Ok(p) => { let t2 = p.to_string(); match MultiPattern::<L>::parse(&t2) { Ok(p2) => format!("ok same={} {}", p2.to_string() == t2, t2), Err(_) => format!("reparse-err {}", t2) } }, Err(_) => "err".to_string() },
        _ => panic!("natdiff: parse kind"),
    }));
    match r { Ok(s) => s, Err(e) => format!("panic {}", if let Some(s) = e.downcast_ref::<String>() { s.clone() } else if let Some(s) = e.downcast_ref::<&str>() { s.to_string() } else { "?".to_string() }) }
}
fn run_parse_case(case: &[String]) -> String {
    // case parse:<id> <lang> <kind> ; text <codepoints...>
    let head: Vec<&str> = case[0].split_whitespace().collect();
    let text: String = case[1].split_whitespace().skip(1).map(|x| char::from_u32(x.parse().unwrap()).unwrap()).collect();
    let res = match head[2] { "Lf" => parse_one::<Lf>(head[3], &text), "Lb" => parse_one::<Lb>(head[3], &text), "Lp" => parse_one::<Lp>(head[3], &text), _ => panic!("natdiff: lang") };
    format!("{{\"case\":{},\"text\":{},\"result\":{}}}", jstr(head[1]), jstr(&text), jstr(&res))
}

fn run_runner_case(case: &[String]) -> String {
    // case runner:<id> <run|eqsat> <r> : a hook changes the e-graph (inserts a term that a rule matches) in round r, the first round in which
    // apply_rewrites reports no progress (r = 1: nothing matches the start term; r = 2: the start term is rewritten once). Afterwards the rules are applied once more.
    let head: Vec<&str> = case[0].split_whitespace().collect();
    let kind = head[2]; let r: usize = head[3].parse().unwrap();
    let start = if r == 1 { "(var $0)" } else { "(u (var $0))" };
    let rules = || -> Vec<Rewrite<Lb, ()>> { vec![Rewrite::new("strip", "(u ?a)", "?a")] };
    let res = catch_unwind(AssertUnwindSafe(|| {
        let count = std::rc::Rc::new(std::cell::Cell::new(0usize));
        let c2 = count.clone();
        if kind == "run" {
            let mut runner: Runner<Lb, (), (), String> = Runner::new(()).with_expr(&RecExpr::parse(start).unwrap())
                .with_hook(move |rn: &mut Runner<Lb, (), (), String>| { c2.set(c2.get() + 1); if c2.get() == r { rn.egraph.add_expr(RecExpr::parse("(u (j $0 $1))").unwrap()); } Ok(()) });
            let rep = runner.run(&rules());
            let again = apply_rewrites(&mut runner.egraph, &rules());
            format!("stop={:?} iterations={} hook_calls={} rules_change_again={}", rep.stop_reason, rep.iterations, count.get(), again)
        } else {
            let mut eg: EGraph<Lb, ()> = EGraph::new(());
            eg.add_expr(RecExpr::parse(start).unwrap());
            let rep = run_eqsat(&mut eg, rules(), 10, 1000, move |eg: &mut EGraph<Lb, ()>| { c2.set(c2.get() + 1); if c2.get() == r { eg.add_expr(RecExpr::parse("(u (j $0 $1))").unwrap()); } Ok(()) });
            let again = apply_rewrites(&mut eg, &rules());
            format!("stop={:?} iterations={} hook_calls={} rules_change_again={}", rep.stop_reason, rep.iterations, count.get(), again)
        }
    }));
    let out = match res { Ok(s) => s, Err(_) => "panic".to_string() };
    format!("{{\"case\":{},\"result\":{}}}", jstr(head[1]), jstr(&out))
}

fn run_slotmap_case(case: &[String]) -> String {
    // maps are named by single tokens; slots are given as u32 values. every line yields one result string.
    let head: Vec<&str> = case[0].split_whitespace().collect();
    let mut maps: HashMap<String, SlotMap> = HashMap::new();
    let mut out: Vec<String> = Vec::new();
    let sv = |x: &str| slot_of_value(x.parse::<u32>().unwrap());
    let show = |m: &SlotMap| -> String { m.iter().map(|(k, v)| format!("{}>{}", value_of_slot(k), value_of_slot(v))).collect::<Vec<_>>().join(",") };
    for line in &case[1..] {
        let t: Vec<&str> = line.split_whitespace().collect();
        let r = catch_unwind(AssertUnwindSafe(|| -> String {
            match t[0] {
                "new" => { maps.insert(t[1].to_string(), SlotMap::new()); "ok".to_string() }
                "pairs" => { let mut m = SlotMap::new(); let mut i = 2; while i + 1 < t.len() { m.insert(sv(t[i]), sv(t[i + 1])); i += 2; } maps.insert(t[1].to_string(), m); "ok".to_string() }
                "frompairs" => { let mut v = Vec::new(); let mut i = 2; while i + 1 < t.len() { v.push((sv(t[i]), sv(t[i + 1]))); i += 2; } maps.insert(t[1].to_string(), SlotMap::from_pairs(&v)); "ok".to_string() }
                "insert" => { maps.get_mut(t[1]).unwrap().insert(sv(t[2]), sv(t[3])); "ok".to_string() }
                "remove" => { maps.get_mut(t[1]).unwrap().remove(sv(t[2])); "ok".to_string() }
                "get" => match maps[t[1]].get(sv(t[2])) { Some(v) => format!("some {}", value_of_slot(v)), None => "none".to_string() },
                "index" => format!("some {}", value_of_slot(maps[t[1]][sv(t[2])])),
                "contains" => maps[t[1]].contains_key(sv(t[2])).to_string(),
                "len" => maps[t[1]].len().to_string(),
                "dump" => show(&maps[t[1]]),
                "keys" => maps[t[1]].keys().iter().map(|k| value_of_slot(*k).to_string()).collect::<Vec<_>>().join(","),
                "values" => { let mut v: Vec<u32> = maps[t[1]].values().iter().map(|k| value_of_slot(*k)).collect(); v.sort(); v.iter().map(|x| x.to_string()).collect::<Vec<_>>().join(",") }
                "inverse" => { let m = maps[t[1]].inverse(); maps.insert(t[2].to_string(), m); "ok".to_string() }
                "compose" => { let m = maps[t[1]].compose(&maps[t[2]]); maps.insert(t[3].to_string(), m); "ok".to_string() }
                "compose_partial" => { let m = maps[t[1]].compose_partial(&maps[t[2]]); maps.insert(t[3].to_string(), m); "ok".to_string() }
                "compose_fresh" => { let m = maps[t[1]].compose_fresh(&maps[t[2]]); maps.insert(t[3].to_string(), m); "ok".to_string() }
                "union" => { let m = maps[t[1]].union(&maps[t[2]]); maps.insert(t[3].to_string(), m); "ok".to_string() }
                "try_union" => match maps[t[1]].try_union(&maps[t[2]]) { Some(m) => { maps.insert(t[3].to_string(), m); "some".to_string() }, None => "none".to_string() },
                "identity" => { let set: SmallHashSet<Slot> = t[2..].iter().map(|x| sv(x)).collect(); maps.insert(t[1].to_string(), SlotMap::identity(&set)); "ok".to_string() }
                "eq" => (maps[t[1]] == maps[t[2]]).to_string(),
                "cmp" => format!("{:?}", maps[t[1]].cmp(&maps[t[2]])),
                "hasheq" => { use std::hash::{Hash, Hasher}; let mut a = std::collections::hash_map::DefaultHasher::new(); let mut b = std::collections::hash_map::DefaultHasher::new(); maps[t[1]].hash(&mut a); maps[t[2]].hash(&mut b); (a.finish() == b.finish()).to_string() }
                "is_bijection" => maps[t[1]].is_bijection().to_string(),
                "is_perm" => maps[t[1]].is_perm().to_string(),
                _ => panic!("natdiff: unknown slotmap op"),
            }
        }));
        match r { Ok(s) => out.push(jstr(&s)), Err(e) => { out.push(jstr(&format!("panic {}", if let Some(s) = e.downcast_ref::<String>() { s.clone() } else if let Some(s) = e.downcast_ref::<&str>() { s.to_string() } else { "?".to_string() }))); } }
    }
    format!("{{\"case\":{},\"results\":[{}]}}", jstr(head[1]), out.join(","))
}

fn parse_map(t: &[&str]) -> SlotMap {
    let mut m = SlotMap::new(); let mut i = 0;
    while i + 1 < t.len() { m.insert(slot_of_value(t[i].parse().unwrap()), slot_of_value(t[i + 1].parse().unwrap())); i += 2; }
    m
}
fn show_map(m: &SlotMap) -> String { m.iter().map(|(k, v)| format!("{}>{}", value_of_slot(k), value_of_slot(v))).collect::<Vec<_>>().join(",") }

#[cfg(all(slotted_egraphs_verif, not(natdiff_explanations)))]
fn run_uf_case(case: &[String]) -> String {
    // lines: entry <i> <parent> k v k v ... (in id order) | find <i> k v ...
    use slotted_egraphs::verif_hooks::*;
    let head: Vec<&str> = case[0].split_whitespace().collect();
    let eg: EGraph<Lf, ()> = EGraph::new(());
    let mut out: Vec<String> = Vec::new();
    for line in &case[1..] {
        let t: Vec<&str> = line.split_whitespace().collect();
        let r = catch_unwind(AssertUnwindSafe(|| -> String {
            match t[0] {
                "entry" => { eg.verif_unionfind_set(Id(t[1].parse().unwrap()), AppliedId::new(Id(t[2].parse().unwrap()), parse_map(&t[3..]))); "ok".to_string() }
                "find" => { let r = eg.find_applied_id(&AppliedId::new(Id(t[1].parse().unwrap()), parse_map(&t[2..]))); format!("{} {}", r.id.0, show_map(&r.m)) }
                "raw" => { let r = eg.verif_unionfind_get(Id(t[1].parse().unwrap())); format!("{} {}", r.id.0, show_map(&r.m)) }
                _ => panic!("natdiff: uf op"),
            }
        }));
        out.push(jstr(&match r { Ok(s) => s, Err(_) => "panic".to_string() }));
    }
    format!("{{\"case\":{},\"results\":[{}]}}", jstr(head[1]), out.join(","))
}
#[cfg(slotted_egraphs_verif)]
fn run_group_case(case: &[String]) -> String {
    // lines: new k v k v .. | gen k v .. (collected until `build`) | build | add k v .. ; k v .. | contains k v .. | count | perms | orbit s | generators
    use slotted_egraphs::verif_hooks::*;
    let head: Vec<&str> = case[0].split_whitespace().collect();
    let mut ident = SlotMap::new(); let mut gens: Vec<SlotMap> = Vec::new(); let mut g: Option<VerifGroup> = None;
    let mut out: Vec<String> = Vec::new();
    for line in &case[1..] {
        let t: Vec<&str> = line.split_whitespace().collect();
        let r = catch_unwind(AssertUnwindSafe(|| -> String {
            match t[0] {
                "identity" => { ident = parse_map(&t[1..]); "ok".to_string() }
                "gen" => { gens.push(parse_map(&t[1..])); "ok".to_string() }
                "build" => { g = Some(VerifGroup::new(&ident, gens.clone())); gens.clear(); "ok".to_string() }
                "add" => { let mut set = Vec::new(); for part in line[4..].split(';') { let tt: Vec<&str> = part.split_whitespace().collect(); if !tt.is_empty() { set.push(parse_map(&tt)); } } g.as_mut().unwrap().add_set(set).to_string() }
                "contains" => g.as_ref().unwrap().contains(&parse_map(&t[1..])).to_string(),
                "count" => g.as_ref().unwrap().count().to_string(),
                "perms" => { let mut v: Vec<String> = g.as_ref().unwrap().all_perms().iter().map(show_map).collect(); v.sort(); v.join(" | ") }
                "generators" => { let mut v: Vec<String> = g.as_ref().unwrap().generators().iter().map(show_map).collect(); v.sort(); v.join(" | ") }
                "orbit" => { let mut v: Vec<u32> = g.as_ref().unwrap().orbit(slot_of_value(t[1].parse().unwrap())).iter().map(|s| value_of_slot(*s)).collect(); v.sort(); v.iter().map(|x| x.to_string()).collect::<Vec<_>>().join(",") }
                _ => panic!("natdiff: group op"),
            }
        }));
        out.push(jstr(&match r { Ok(s) => s, Err(e) => format!("panic {}", if let Some(s) = e.downcast_ref::<String>() { s.clone() } else { "?".to_string() }) }));
    }
    format!("{{\"case\":{},\"results\":[{}]}}", jstr(head[1]), out.join(","))
}
#[cfg(any(not(slotted_egraphs_verif), natdiff_explanations))]
fn run_uf_case(_case: &[String]) -> String { "{\"error\":\"built without --cfg slotted_egraphs_verif\"}".to_string() }
#[cfg(not(slotted_egraphs_verif))]
fn run_group_case(_case: &[String]) -> String { "{\"error\":\"built without --cfg slotted_egraphs_verif\"}".to_string() }

fn node_tokens<L: Language>(n: &L) -> String {
    n.to_syntax().iter().map(|e| match e {
        SyntaxElem::String(s) => s.clone(),
        SyntaxElem::Slot(s) => format!("s:{}", value_of_slot(*s)),
        SyntaxElem::AppliedId(a) => format!("a:{}:{}", a.id.0, a.m.iter().map(|(k, v)| format!("{}>{}", value_of_slot(k), value_of_slot(v))).collect::<Vec<_>>().join(",")),
    }).collect::<Vec<_>>().join(" ")
}
fn parse_node<L: Language>(t: &[&str]) -> Option<L> {
    let mut elems = Vec::new();
    for x in t {
        if let Some(r) = x.strip_prefix("s:") { elems.push(SyntaxElem::Slot(slot_of_value(r.parse().unwrap()))); }
        else if let Some(r) = x.strip_prefix("a:") {
            let mut it = r.splitn(2, ':'); let id: usize = it.next().unwrap().parse().unwrap(); let rest = it.next().unwrap_or("");
            let mut m = SlotMap::new();
            for kv in rest.split(',') { if kv.is_empty() { continue; } let mut p = kv.split('>'); let k: u32 = p.next().unwrap().parse().unwrap(); let v: u32 = p.next().unwrap().parse().unwrap(); m.insert(slot_of_value(k), slot_of_value(v)); }
            elems.push(SyntaxElem::AppliedId(AppliedId::new(Id(id), m)));
        } else { elems.push(SyntaxElem::String(x.to_string())); }
    }
    L::from_syntax(&elems)
}
fn run_node_case(case: &[String]) -> String {
    // node <tokens...> : one node of language Lc; prints shape, bijection, slot sets, occurrence lists, check, syntax round trip
    let head: Vec<&str> = case[0].split_whitespace().collect();
    let mut out = Vec::new();
    for line in &case[1..] {
        let t: Vec<&str> = line.split_whitespace().collect();
        let r = catch_unwind(AssertUnwindSafe(|| -> String {
            let Some(n) = parse_node::<Lc>(&t[1..]) else { return "from_syntax=None".to_string() };
            let (sh, bij) = n.weak_shape();
            let (sh2, _) = sh.weak_shape();
            let back = sh.apply_slotmap(&bij);
            let vs = |v: Vec<Slot>| v.iter().map(|s| value_of_slot(*s).to_string()).collect::<Vec<_>>().join(",");
            let mut sl: Vec<u32> = n.slots().iter().map(|s| value_of_slot(*s)).collect(); sl.sort();
            let chk = catch_unwind(AssertUnwindSafe(|| n.check())).is_ok();
            let rt = L_roundtrip(&n);
            let rp = n.refresh_private();
            format!("shape=[{}] bij=[{}] shape2_same={} back=[{}] slots=[{}] all=[{}] public=[{}] private=[{}] check={} roundtrip={} refreshed=[{}]", node_tokens(&sh), show_map(&bij), sh2 == sh, node_tokens(&back),
                sl.iter().map(|x| x.to_string()).collect::<Vec<_>>().join(","), vs(n.all_slot_occurrences()), vs(n.public_slot_occurrences()), vs(n.private_slot_occurrences()), chk, rt, node_tokens(&rp))
        }));
        out.push(jstr(&match r { Ok(s) => s, Err(_) => "panic".to_string() }));
    }
    format!("{{\"case\":{},\"results\":[{}]}}", jstr(head[1]), out.join(","))
}
#[allow(non_snake_case)]
fn L_roundtrip(n: &Lc) -> bool { Lc::from_syntax(&n.to_syntax()).as_ref() == Some(n) }

fn run_cost_case(case: &[String]) -> String {
    let head: Vec<&str> = case[0].split_whitespace().collect();
    let mut out = Vec::new();
    for line in &case[1..] {
        let t: Vec<&str> = line.split_whitespace().collect();
        let (c1, c2): (u64, u64) = (t[1].parse().unwrap(), t[2].parse().unwrap());
        let node = Lb::App(AppliedId::new(Id(0), SlotMap::new()), AppliedId::new(Id(1), SlotMap::new()));
        let r = catch_unwind(AssertUnwindSafe(|| match t[0] {
            "AstSize" => AstSize.cost(&node, |i| if i.0 == 0 { c1 } else { c2 }),
            "Weighted" => Weighted.cost(&node, |i| if i.0 == 0 { c1 } else { c2 }),
            _ => panic!("natdiff: cost function"),
        }));
        out.push(jstr(&match r { Ok(v) => v.to_string(), Err(_) => "panic".to_string() }));
    }
    format!("{{\"case\":{},\"results\":[{}]}}", jstr(head[1]), out.join(","))
}

fn run_case(case: &[String]) -> String {
    if case[0].starts_with("case cost:") { return run_cost_case(case); }
    if case[0].starts_with("case node:") { return run_node_case(case); }
    if case[0].starts_with("case uf:") { return run_uf_case(case); }
    if case[0].starts_with("case group:") { return run_group_case(case); }
    if case[0].starts_with("case slotmap:") { return run_slotmap_case(case); }
    if case[0].starts_with("case slot:") { return run_slot_case(case); }
    if case[0].starts_with("case parse:") { return run_parse_case(case); }
    if case[0].starts_with("case runner:") { return run_runner_case(case); }
    // case <id> <lang> <analysis> <f0> <named_max> ; names v0 v1 ... ; ops...
    let head: Vec<&str> = case[0].split_whitespace().collect();
    let (id, lang, analysis, f0, named): (&str, &str, &str, u32, u32) = (head[1], head[2], head[3], head[4].parse().unwrap(), head[5].parse().unwrap());
    let light = head[6..].iter().any(|x| *x == "light");
    let dump = head[6..].iter().any(|x| *x == "dump");
    let subst: &str = head[6..].iter().find_map(|x| x.strip_prefix("subst=")).unwrap_or("");
    let names: Vec<u32> = case[1].split_whitespace().skip(1).map(|x| x.parse().unwrap()).collect();
    // bring the thread's slot table into the state the template assumes
    let need_named = names.iter().filter(|v| *v % 4 == 2).map(|v| (v - 2) / 4 + 1).max().unwrap_or(0).min(named);
    for i in 0..need_named { let _ = Slot::named(&format!("n{}", i)); }
    let mut k = 1u32; while k < f0 { let _ = Slot::fresh(); k += 4; }
    // optional line `late i:k i:k ...`
    let mut late: Vec<usize> = vec![usize::MAX; names.len()];
    let mut first_op = 2;
    if case.len() > 2 && case[2].starts_with("late") {
        for kv in case[2].split_whitespace().skip(1) { let mut p = kv.split(':'); let i: usize = p.next().unwrap().parse().unwrap(); let k: usize = p.next().unwrap().parse().unwrap(); late[i] = k; }
        first_op = 3;
    }
    let ops: Vec<String> = case[first_op..].to_vec();
    let (steps, panic_msg) = match (lang, analysis) {
        ("Lf", "()") => run_history::<Lf, ()>(names, late, &ops, false, light),
        ("Lb", "()") => run_history::<Lb, ()>(names, late, &ops, false, light),
        ("Lb", "MinSize") => run_history::<Lb, MinSize>(names, late, &ops, true, light),
        ("Lb", "Depth") => run_history::<Lb, Depth>(names, late, &ops, true, light),
        ("La", "ConstProp") => run_history::<La, ConstProp>(names, late, &ops, true, light),
        ("La", "()") => run_history::<La, ()>(names, late, &ops, false, light),
        ("Lm", "()") => run_history_opts::<Lm, ()>(names, late, &ops, false, light, dump, subst),
        _ => panic!("natdiff: unsupported instantiation {} {}", lang, analysis),
    };
    format!("{{\"case\":{},\"steps\":[{}],\"panic\":{}}}", jstr(id), steps.join(","), match panic_msg { Some(m) => jstr(&m), None => "null".to_string() })
}
