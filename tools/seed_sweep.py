#!/usr/bin/env python3
"""Runs the quick checks against every seeded change in a scratch copy of /repo (VERIF_REPO), records which checks catch which change
in seeded/<id>/meta.json ('detected_by'). usage: seed_sweep.py [--props C01,C02,...] [ids...]"""
import sys, os, json, subprocess, shutil, tempfile, re
V = os.path.dirname(os.path.dirname(os.path.abspath(__file__)))
def main():
    args = sys.argv[1:]; props = None
    if args and args[0] == '--props': props = args[1].split(','); args = args[2:]
    ids = args or sorted(os.listdir(os.path.join(V, 'seeded')))
    m = json.load(open(os.path.join(V, 'MANIFEST.json')))
    all_props = [c['property_id'] for c in m['checks']]
    scratch = tempfile.mkdtemp(prefix='verif-sweep-')
    repo = os.path.join(scratch, 'repo')
    try:
        subprocess.run(['git', 'clone', '-q', '/repo', repo], check=True)
        shutil.copy('/repo/Cargo.lock', os.path.join(repo, 'Cargo.lock'))
        env = dict(os.environ); env['VERIF_REPO'] = repo; env['VERIF_OUT'] = os.path.join(scratch, 'out')
        for sid in ids:
            d = os.path.join(V, 'seeded', sid); meta = json.load(open(os.path.join(d, 'meta.json')))
            subprocess.run(['git', '-C', repo, 'checkout', '-q', '--', '.'], check=True)
            r = subprocess.run(['git', '-C', repo, 'apply', os.path.join(d, 'patch.diff')])
            if r.returncode != 0: print(sid, 'PATCH DOES NOT APPLY'); meta['detected_by'] = {'error': 'patch does not apply to current HEAD'}; json.dump(meta, open(os.path.join(d, 'meta.json'), 'w'), indent=1); continue
            res = {}
            for p in (props or all_props):
                out = subprocess.run([os.path.join(V, 'bin', 'check'), p, '--tier', 'quick'], env=env, stdout=subprocess.PIPE, stderr=subprocess.STDOUT, cwd=V)
                txt = out.stdout.decode(errors='replace')
                first = next((l for l in txt.splitlines() if l.startswith('VIOLATION')), '')
                detail = next((l.strip() for l in txt.splitlines() if l.startswith('  ')), '')
                res[p] = {'exit': out.returncode, 'first': (first + ' | ' + detail)[:300] if out.returncode == 1 else next((l for l in txt.splitlines() if l.startswith('INCONCLUSIVE')), '')[:200]}
            meta['detected_by'] = {'caught': sorted(p for p, v in res.items() if v['exit'] == 1), 'inconclusive': sorted(p for p, v in res.items() if v['exit'] == 2),
                                   'missed': sorted(p for p, v in res.items() if v['exit'] == 0), 'details': {p: v['first'] for p, v in res.items() if v['exit'] != 0}}
            json.dump(meta, open(os.path.join(d, 'meta.json'), 'w'), indent=1)
            print(sid, 'caught by', meta['detected_by']['caught'], 'inconclusive', meta['detected_by']['inconclusive'], flush=True)
    finally:
        shutil.rmtree(scratch, ignore_errors=True)
if __name__ == '__main__': main()
