#!/usr/bin/env python3-vt
"""explores every thorough template once (insertion order) and prints paths / records / wall time / findings - used to size the thorough tier"""
import sys, os, time, json, collections
sys.path.insert(0, os.path.dirname(os.path.dirname(os.path.abspath(__file__))))
from mirsmt import runner, catalog
sel = [t for t in catalog.THOROUGH + catalog.QUICK + catalog.MODEL + catalog.MODEL_THOROUGH if not sys.argv[1:] or t.name in sys.argv[1:]]
t0 = time.time()
res = runner.explore_all(sel, hash_orders=('ins',), budget_paths=20000, budget_s=3000)
for k, v in sorted(res.items()): print(k, v['status'], v.get('reason', '')[:300], v['stats'].get('paths'), v['stats'].get('wall_s'), flush=True)
ok, mism, nat = runner.validate_native(sel, res); print('native', ok, 'validated', len(mism), 'mismatches', mism[:2])
f = runner.judge_all(sel, res); print('findings', collections.Counter((x['template'], x['kind']) for x in f)); print('total', round(time.time() - t0))
