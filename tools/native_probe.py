#!/usr/bin/env python3-vt
"""native_probe.py <template name>... : runs templates natively only (no symbolic execution) on every coincidence pattern of their names under a few
concrete namings and judges the runs against the oracle. A design aid: shows quickly whether a template shape can expose a changed tree
(VERIF_REPO=<scratch clone>) under the native hash order. Not a check."""
import sys, os, json, itertools, collections
sys.path.insert(0, os.path.dirname(os.path.dirname(os.path.abspath(__file__))))
from mirsmt import catalog, native, judge, oracle as O
from mirsmt.tmpl import F0_DEFAULT, NAMED_MAX
ALL = catalog.QUICK + catalog.THOROUGH + catalog.MODEL + catalog.MODEL_THOROUGH + getattr(catalog, 'EXTRA', [])
sel = [t for t in ALL if t.name in sys.argv[1:]]
text = []; index = {}
for t in sel:
    for pat in O.set_partitions(t.nnames):
        if any(len({pat[i] for i in g}) < len(g) for g in (t.distinct or [])): continue
        k = max(pat) + 1 if pat else 0
        pools = [[4 * i for i in range(k)], [4 * (k - 1 - i) for i in range(k)], [4 * i + 2 for i in range(k)], [(4 * i + 2 if i % 2 else 4 * (k - i)) for i in range(k)]]
        for vi, pool in enumerate(pools):
            vals = [pool[b] for b in pat]
            cid = '%s|%s|%d' % (t.name, ''.join(map(str, pat)), vi)
            text.append(native.case_text(cid, t, vals, F0_DEFAULT, NAMED_MAX)); index[cid] = (t, list(pat), vals)
nat = native.run_cases(''.join(text))
cnt = collections.Counter(); ex = {}
for cid, (t, pat, vals) in index.items():
    n = nat.get(cid)
    if not n or 'steps' not in n: cnt[(t.name, 'no-result')] += 1; continue
    rec = dict(n, pattern=pat, values=vals)
    for kind, step, detail in (judge.judge_model_record if t.model else judge.judge_record)(t, rec):
        cnt[(t.name, kind)] += 1; ex.setdefault((t.name, kind), (cid, step, detail))
print('cases', len(index))
for k, v in sorted(cnt.items()): print(k, v, ex.get(k))
