#!/bin/sh
# tools/seed_add.sh <id> <prop> <patch> <demo.rs> "<needs to manifest>" : confirm a seeded change in a scratch worktree (tools/confirm_seed.sh) and,
# if the demonstration passes without it, fails with it and the suite keeps its 82 passes / 3 baseline failures, keep it as seeded/<id>/
id=$1; prop=$2; patch=$3; demo=$4; needs=$5
V=$(cd "$(dirname "$0")/.." && pwd)
"$V/tools/confirm_seed.sh" "$id" x "$patch" "$demo"
out=/tmp/mut/confirm/$id-x.txt
python3 - "$id" "$prop" "$patch" "$demo" "$needs" "$out" "$V" <<'PY'
import sys, os, json, re, shutil
sid, prop, patch, demo, needs, out, V = sys.argv[1:8]
txt = open(out).read()
sec = re.split(r'^-- ', txt, flags=re.M)
def part(name): return next((s for s in sec if s.startswith(name)), '')
wo, wi, suite = part('demo WITHOUT'), part('demo WITH change'), part('suite WITH')
ok_wo = 'test result: ok' in wo and 'FAILED' not in wo
ok_wi = 'FAILED' in wi or 'error' in wi and False
fails = sorted(set(re.findall(r'^test (\S+) \.\.\. FAILED', suite, flags=re.M)))
base = ['arith2::redundancy_matching_bug2', 'arith2::redundancy_matching_bug3', 'lambda::redundancy_matching_bug']
passed = sum(int(x) for x in re.findall(r'test result: \w+\. (\d+) passed', suite))
ok_suite = fails == base and passed == 82 and 'APPLY FAILED' not in txt
print(sid, 'demo-without ok' if ok_wo else 'DEMO-WITHOUT FAILS', '| demo-with fails' if ok_wi else '| DEMO-WITH PASSES', '| suite ok (%d pass)' % passed if ok_suite else '| SUITE DIFFERS %d pass %s' % (passed, fails))
if ok_wo and ok_wi and ok_suite:
    d = os.path.join(V, 'seeded', sid); os.makedirs(d, exist_ok=True)
    shutil.copy(patch, os.path.join(d, 'patch.diff')); shutil.copy(demo, os.path.join(d, 'demo.rs'))
    json.dump({'id': sid, 'property': prop, 'needs_to_manifest': needs, 'origin': 'independent sub-agent given only the property text (round ' + os.environ.get('SEED_ROUND', '5') + ')', 'confirmed': txt,
               'confirm_cmd': 'tools/confirm_seed.sh (scratch worktree: demo passes without the change, fails with it; cargo test --workspace: 82 pass + the 3 baseline failures)'}, open(os.path.join(d, 'meta.json'), 'w'), indent=1)
    print('registered', d)
PY
