#!/usr/bin/env python3
"""fastsweep.py <seed id>... : for each template-level seeded change: native probe of ALL quick templates on the changed tree (seconds), then the REAL quick check of
the property the finding kinds belong to (own property first), restricted with VERIF_ONLY to the templates the probe flagged. A violation of a restricted run is a
violation of the full quick run (same templates, same obligations)."""
import sys, os, json, subprocess, shutil, tempfile, re, collections
V = '/verif'
sys.path.insert(0, V)
ids = sys.argv[1:]
for sid in ids:
    d = os.path.join(V, 'seeded', sid); meta = json.load(open(os.path.join(d, 'meta.json'))); own = meta['property']
    scratch = tempfile.mkdtemp(prefix='verif-fs-'); repo = os.path.join(scratch, 'repo')
    try:
        subprocess.run(['git', 'clone', '-q', '/repo', repo], check=True); shutil.copy('/repo/Cargo.lock', os.path.join(repo, 'Cargo.lock'))
        if subprocess.run(['git', '-C', repo, 'apply', os.path.join(d, 'patch.diff')]).returncode != 0: print(sid, 'PATCH DOES NOT APPLY', flush=True); continue
        env = dict(os.environ); env['VERIF_REPO'] = repo; env['VERIF_OUT'] = os.path.join(scratch, 'out')
        names = subprocess.run(['python3-vt', '-c', "import sys; sys.path.insert(0,'/verif'); from mirsmt import catalog; print(' '.join(t.name for t in catalog.QUICK if not t.model) + ' ' + ' '.join(t.name for t in catalog.MODEL))"], stdout=subprocess.PIPE, cwd=V).stdout.decode().split()
        if own == 'C07': names = []
        out = subprocess.run(['python3-vt', os.path.join(V, 'tools', 'native_probe.py')] + names, env=env, stdout=subprocess.PIPE, stderr=subprocess.STDOUT, cwd=V).stdout.decode(errors='replace') if names else ''
        hits = collections.OrderedDict()
        for m in re.finditer(r"^\('([^']+)', '([^']+)'\) (\d+)", out, flags=re.M):
            hits.setdefault(m.group(2), []).append(m.group(1))
        from mirsmt import judge
        byprop = collections.OrderedDict()
        for kind, ts in hits.items():
            p = judge.KIND_PROP.get(kind, '?')
            if kind in ('check', 'panic', 'consistency'): p = 'C08'
            byprop.setdefault(p, [])
            for t in ts:
                if t.split('~')[0] not in byprop[p]: byprop[p].append(t.split('~')[0])
        order = [own] + [p for p in byprop if p != own]
        res = {}
        for p in order:
            if p not in byprop or p == '?': continue
            e2 = dict(env); e2['VERIF_ONLY'] = ','.join(byprop[p][:3])
            r = subprocess.run([os.path.join(V, 'bin', 'check'), p, '--tier', 'quick'], env=e2, stdout=subprocess.PIPE, stderr=subprocess.STDOUT, cwd=V)
            txt = r.stdout.decode(errors='replace'); first = next((l for l in txt.splitlines() if l.startswith('VIOLATION')), ''); detail = next((l.strip() for l in txt.splitlines() if l.startswith('  ')), '')
            res[p] = {'exit': r.returncode, 'templates': e2['VERIF_ONLY'], 'first': (first + ' | ' + detail)[:300] if r.returncode == 1 else next((l for l in txt.splitlines() if l.startswith('INCONCLUSIVE')), '')[:200]}
            if r.returncode == 1 and (p == own or own not in byprop): break
        meta['detected_by'] = {'caught': sorted(p for p, v in res.items() if v['exit'] == 1), 'inconclusive': sorted(p for p, v in res.items() if v['exit'] == 2),
                               'missed': sorted(p for p, v in res.items() if v['exit'] == 0) + ([own] if own not in res else []), 'details': {p: v['first'] for p, v in res.items() if v['exit'] != 0},
                               'how': 'native probe of all quick templates, then the quick check of the properties concerned restricted (VERIF_ONLY) to the flagged templates: ' + json.dumps({p: v['templates'] for p, v in res.items()}),
                               'probe': {k: v[:4] for k, v in hits.items()}}
        json.dump(meta, open(os.path.join(d, 'meta.json'), 'w'), indent=1)
        print(sid, 'probe:', dict((k, v[:3]) for k, v in hits.items()), '| caught by', meta['detected_by']['caught'], 'inconclusive', meta['detected_by']['inconclusive'], flush=True)
    finally:
        shutil.rmtree(scratch, ignore_errors=True)
