#!/bin/sh
# tools/confirm_seed.sh <prop> <n> <patch> <demo.rs>  : confirm in a scratch worktree that the seeded change compiles, passes the
# existing suite (same 82 pass / 3 known failures), and that the demonstration fails with it and passes without it.
prop=$1; n=$2; patch=$3; demo=$4
wt=/tmp/seedcheck/$prop-$n; out=/tmp/mut/confirm/$prop-$n.txt
mkdir -p /tmp/seedcheck /tmp/mut/confirm
git -C /repo worktree add --detach "$wt" HEAD >/dev/null 2>&1 || { echo "worktree failed" > "$out"; exit 1; }
export CARGO_TARGET_DIR=${SEED_TARGET:-/tmp/seedcheck/target} CARGO_NET_OFFLINE=true
cd "$wt"
{
echo "== base $(git rev-parse --short HEAD) patch $patch"
cp "$demo" tests/demo_seed.rs
echo "-- demo WITHOUT change:"; cargo test --offline ${SEED_FEATURES:+--features $SEED_FEATURES} --test demo_seed 2>&1 | grep -E "^test result|panicked|error\[" | head -5
git apply "$patch" || echo "APPLY FAILED"
echo "-- demo WITH change:"; cargo test --offline ${SEED_FEATURES:+--features $SEED_FEATURES} --test demo_seed 2>&1 | grep -E "^test result|error\[" | head -5
rm tests/demo_seed.rs
echo "-- suite WITH change:"; cargo test --workspace --no-fail-fast --offline 2>&1 | grep -E "^test result|^test .*FAILED" | head -12
} > "$out" 2>&1
cd /; git -C /repo worktree remove --force "$wt"
