#!/usr/bin/env python3
"""Generates /verif/MANIFEST.json from the table below (kept next to the checks so that it stays current)."""
import json, os
V = os.path.dirname(os.path.dirname(os.path.abspath(__file__)))
TN = ("E2: bounded symbolic execution of the crate's MIR (regenerated from /repo at check time) with z3 deciding every branch and obligation; "
      "shapes concrete, slot names symbolic 32-bit; oracle = brute-force ground congruence closure; every record replayed natively")
CHECKS = {
 'C01': ('E2 templates: eq/slots/symmetries never exceed the oracle closure', 'model_checking', '§4 C01'),
 'C02': ('E2 templates: every equality / redundancy / symmetry of the oracle closure is reported right after union returns', 'model_checking', '§4 C02'),
 'C03': ('E2 templates over the harness language Lm (variables, +, *, summation binder, let binder) with rule sets that are valid in the finite model GF(3): apply_rewrites from MIR (pattern_subst incl. the substitution form b[x := t] under both SubstMethods via trait-object dispatch, conditional rules with the condition closure from MIR, rules that move terms under binders or re-bind); after every call every class is dumped through enodes_applied and evaluated exhaustively over all environments: all e-nodes of a class denote the same function of the class slots, further (redundant) slots of a node do not influence its value, every inserted term still denotes what its class denotes', 'model_checking', '§4 C03'),
 'C04': ('E2 templates with rewrite steps: the real apply_rewrites (Rewrite::new, boxed searcher/applier, ematch_all, union_instantiations) from MIR on template final states; every oracle instance of a left side has its right side represented and equal afterwards', 'model_checking', '§4 C04'),
 'C05': ('E2 templates with matching steps: every substitution returned by ematch_all binds all variables, its instance is found by lookup alone, matching leaves the e-graph unchanged; pattern slot names range over every slot issued before; multi-pattern matcher: every equation of a returned substitution holds; multi-pattern matcher (multi_ematch) from MIR: every equation of a returned substitution holds', 'model_checking', '§4 C05'),
 'C14': ('E2 templates with the analyses MinSize, Depth and ConstProp (constant folding with a modify hook that adds the constant and unions it) of the harness crate (make/merge/modify dispatched to their MIR): after every operation each class datum equals the oracle value (least size / depth over all represented terms; constant value of the class in the closure that includes the folded constants) and the merge-fold of the crate own make over the class e-nodes; the datum read through a merged-away id equals the datum of its class; folded constants are represented and equal; no panic, EGraph::check() holds', 'model_checking', '§4 C14'),
 'C07': ('E2 templates on the MIR of the explanations build: histories of justified unions, then EGraph::explain_equivalence from MIR for pairs of equal terms (asserted equations and their renamed / flipped instances, union-find chains, congruence also under binders and for terms the e-graph had not seen, transposition and order-3 symmetries incl. inherited ones; thorough: redundant slots, congruence over an order-3 symmetric child); no panic, and the returned proof DAG - every equation written out on terms through get_syn_expr - is re-checked node by node by an independent checker on terms (reflexivity, symmetry, transitivity, congruence under renamings injective on each side of a premise; every leaf an asserted equation with its justification; conclusion = the queried equation up to injective renaming)', 'model_checking', '§4 C07'),
 'C15': ('E2: a call of apply_rewrites that returns false changed no observable and the oracle has no new instance; repeated calls stay false (Runner loop: Kani half, see DESIGN)', 'model_checking', '§4 C15'),
 'C06': ('E2 templates with extraction steps: Extractor::new / extract / get_best_cost from MIR (heap ordered by the crate own WithOrdRev::cmp) for AstSize and per-operator weighted costs; result is a member (lookup_rec_expr + eq), recomputed cost equals the reported cost, equals the oracle minimum over all represented terms, free slots are query arguments or fresh', 'model_checking', '§4 C06'),
 'C08': ('E2 templates: no panic path feasible, EGraph::check() from MIR, enodes look up to their class, idempotent canonicalisation, after every operation; one-step obligations on find_applied_id from arbitrary union-find states (idempotence, key set, compressed entries); thorough: the same histories on the MIR of the checks-feature build', 'model_checking', '§4 C08'),
 'C09': ('E2 templates with re-insertion steps: no allocation, equal invocation, lookup agrees with add; the invocation as returned by add/lookup carries exactly the non-redundant free slots', 'model_checking', '§4 C09'),
 'C11': ('E2 templates: all paths (name orders) and hash iteration orders of one coincidence pattern yield identical observables', 'model_checking', '§4 C11'),
 'C16': ('E2 unit: every variant of a derived language (plain slots, Bind, nested Bind, Bind before/after/between free children, payload) with all slot positions symbolic through the macro-generated code and the Language default methods; per coincidence pattern the shape must equal an independent canonical form, bijection / apply_slotmap / idempotence / slots / public-private partition / syntax round trip; refresh_private: same term up to bound names, free occurrences untouched, bound names new', 'model_checking', '§4 C16'),
 'C17': ('E2 unit: one inductive step of Slot::fresh/numeric/named/Display from MIR from an arbitrary slot-table state under the quantified invariant; dev and release (wrapping) variants', 'model_checking', '§4 C17'),
 'C18': ('E2: Pattern::parse recursive descent + derived from_syntax from MIR on every token sequence up to the bound (symbolic kinds / identifiers / slots) and tokenize+parse on every string of symbolic Unicode scalar values up to the bound: no panic, Ok values well formed; round-trip clause outside; RecExpr::parse from MIR on every accepted token sequence and short string; MultiPattern::parse on strings around valid and spliced multi-pattern texts (well-formedness); print/re-parse of every accepted class replayed natively; RecExpr::parse on every short string in a language with payload variants (u32 before Symbol; bare_language_child! from_syntax executed from MIR) against a reference recogniser: a printed payload is accepted and parses to the number / symbol it spells', 'model_checking', '§4 C18'),
 'C19': ('E2 unit: every public SlotMap method from MIR on maps of concrete size with symbolic slots, reference finite map as z3 ite-terms, queries for a fresh symbolic key; maps of 11-40 entries for one symbolic operation', 'model_checking', '§4 C19'),
 'C10': ('E2 unit: Group<SlotMap> from MIR with symbolic generator images, every permutation tuple a path admits compared with a brute-force closure (count, membership, enumeration, orbits, generators, add_set); e-graph level: symmetric-leaf templates; thorough: 5 slots with one symbolic generator next to a concrete one', 'model_checking', '§4 C10'),
 'C13': ('E2 unit: one canonicalisation step (find_applied_id with recursive path compression) from arbitrary union-find states of five chain shapes, oracle = pointwise composition; history level: monotonicity of eq / slots / progress over the template histories', 'model_checking', '§4 C13'),
 'C12': ('E2 templates and their reorderings (insertion order, union order, orientation) agree per coincidence pattern; reorder groups also with an analysis attached (insert-before-union vs insert-after-union)', 'model_checking', '§4 C12'),
}
NA = {
 'C20': 'thread/hash-seed reproducibility is invisible to a single-threaded symbolic encoding; see DESIGN.md §7',
}
def main():
    all_ids = ['C%02d' % i for i in range(1, 21)]
    checks = []
    for pid in all_ids:
        if pid in CHECKS:
            text, level, ref = CHECKS[pid]
            checks.append({'property_id': pid, 'quick_cmd': 'bin/check %s --tier quick' % pid, 'thorough_cmd': 'bin/check %s --tier thorough' % pid,
                           'evidence_file': 'evidence/%s.json' % pid, 'replay_cmd_template': 'bin/check %s --replay {path}' % pid, 'engine': 'E2-mirsmt',
                           'level_claimed': {'category': level, 'text': text + '. Bounded: template shapes / sizes stated in the evidence; unbounded in slot values.', 'design_ref': ref},
                           'level_note': 'trusted: the MIR executor and library models (validated per record against native runs of the real crate), the oracle, z3; bounds as stated in evidence.coverage.bounds',
                           'technique': 'bounded symbolic execution of rustc MIR + SMT (z3), native replay of every model'})
    na = [{'property_id': p, 'reason': NA.get(p, 'check not built yet in this round (planned in DESIGN.md)')} for p in all_ids if p not in CHECKS]
    m = {'version': 1,
         'setup_cmd': 'bin/setup',
         'hooks': {'guard': 'slotted_egraphs_verif', 'enable': "RUSTFLAGS='--cfg slotted_egraphs_verif' (cfg(kani) also enables)", 'baseline_off_cmd': 'cd /repo && cargo test --workspace --no-fail-fast --offline',
                   'source_commits': ['36fd914'], 'add_only': True},
         'engines': [{'name': 'E2-mirsmt', 'path': 'mirsmt/', 'serves_properties': sorted(CHECKS), 'kind_free_text': TN}],
         'checks': checks, 'not_applicable': na,
         'notes': 'exit 0 = held on everything explored, 1 = VIOLATION (natively reproduced), 2 = inconclusive (unsupported construct, budget, model mismatch). known_findings.txt lists genuine unrepaired defects.'}
    json.dump(m, open(os.path.join(V, 'MANIFEST.json'), 'w'), indent=1)
if __name__ == '__main__': main()
