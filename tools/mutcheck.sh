#!/bin/sh
# tools/mutcheck.sh <patch.diff> <prop> [<prop> ...] : apply a seeded change to a scratch clone of /repo (never to /repo itself),
# run the quick checks against it (VERIF_REPO), print the verdicts, remove the clone. Evidence/replays of these runs go to the scratch dir.
d="$1"; shift
s=$(mktemp -d /tmp/verif-mut-XXXXXX)
git clone -q /repo "$s/repo" && cp /repo/Cargo.lock "$s/repo/Cargo.lock" || exit 3
git -C "$s/repo" apply "$d" || { rm -rf "$s"; exit 3; }
for p in "$@"; do
  out=$(VERIF_REPO="$s/repo" VERIF_OUT="$s/out" /verif/bin/check "$p" 2>&1); rc=$?
  echo "== $p exit=$rc"; echo "$out" | grep -E "^(VIOLATION|INCONCLUSIVE|OK)" | cut -c1-260 | head -6
  echo "$out" | grep -E "^  " | cut -c1-400 | head -3
done
rm -rf "$s"
