#!/bin/sh
# tools/mutcheck.sh <patch.diff> <prop> [<prop> ...] : apply a seeded change to /repo, run the quick checks, undo it
d="$1"; shift
git -C /repo apply "$d" || exit 3
for p in "$@"; do
  out=$(/verif/bin/check "$p" 2>&1); rc=$?
  echo "== $p exit=$rc"; echo "$out" | grep -E "^(VIOLATION|INCONCLUSIVE|KNOWN|OK)" | cut -c1-260 | head -6
  echo "$out" | grep -E "^  " | cut -c1-400 | head -3
done
git -C /repo checkout -- .
