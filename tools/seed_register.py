#!/usr/bin/env python3
"""copies a confirmed seeded change into /verif/seeded/<id>/ (patch.diff, demo.rs, meta.json)"""
import sys, os, json, shutil
V = os.path.dirname(os.path.dirname(os.path.abspath(__file__)))
SEEDS = {
 'C01-1': ('C01', 'C01/mut1.diff', 'C01/demo_mut1.rs', 'determine_self_symmetries compares weak shape with itself: a child class with a symmetry plus a parent reusing a permuted slot elsewhere -> non-derivable permutation added to the parent group'),
 'C01-2': ('C01', 'C01/mut2.diff', 'C01/demo_mut2.rs', 'pc_find only find-normalises the syntactic e-node: two parents congruent only modulo a child symmetry are merged with two slots exchanged (4-step history)'),
 'C02-1': ('C02', 'C02/mut1.diff', 'C02/demo_mut1.rs', 'move_to touches from.id instead of to.id after the group transfer: a symmetric class merged into a larger symmetry-free class that has parents'),
 'C02-2': ('C02', 'C02/mut2.diff', 'C02/demo_mut2.rs', 'dropped inverse in Group::contains: only symmetries of order >= 3 (3-cycle) expose it'),
 'C08-2': ('C08', 'C08/mut2.diff', 'C08/demo_mut2.rs', 'move_to no longer re-queues users of the surviving class after add_set: symmetric class deprecated into a symmetry-free class with user e-nodes'),
 'C10-2': ('C10', 'C10/mut2.diff', 'C10/demo_mut2.rs', 'Group::generators_impl forgets deeper stabiliser levels: needs three successive growths of one group on four slots'),
 'C13-1': ('C13', 'C13/mut1.diff', 'C13/demo_mut1.rs', 'fast path in proven_unionfind_get returns the raw entry one step from the leader: old handle of a merged class after the leader loses a slot, without path compression in between'),
 'C13-2': ('C13', 'C13/mut2.diff', 'C13/demo_mut2.rs', 'move_to guards the symmetry transfer on to.id instead of from.id: an acquired symmetry is lost when the symmetric class is the deprecated side of a merge'),
 'C17-1': ('C17', 'C17/mut1_rebased.diff', 'C17/demo_mut1.rs', 'fresh_idx <= out became <: parsing $f<n> with n exactly the next fresh index'),
 'C17-2': ('C17', 'C17/mut2_rebased.diff', 'C17/demo_mut2.rs', 'unconditional fresh_idx = out + 4: re-parsing the name of an older fresh slot moves the counter down'),
 'C18-1': ('C18', 'C18/mut1.diff', 'C18/demo_mut1.rs', 'crop_ident splits by character count instead of byte offset: a non-ASCII identifier followed by a delimiter'),
 'C18-2': ('C18', 'C18/mut2_rebased.diff', 'C18/demo_mut2.rs', 'x-position of b[x := t] parsed without substitution: only a Subst nested in the middle position fails to re-parse (round-trip clause)'),
 'C19-1': ('C19', 'C19/mut1.diff', 'C19/demo_mut1.rs', 'SlotMap::search scans 16 entries linearly and forgets the offset of the binary-searched tail: maps with >= 17 entries'),
 'C19-2': ('C19', 'C19/mut2.diff', 'C19/demo_mut2.rs', 'try_union searches self instead of the growing result: right-hand map adds >= 2 new keys'),
 'C04-1': ('C04', 'C04/mut1.diff', 'C04/demo_mut1.rs', 'ematch_node reads the stored node children instead of the variant: symmetric child class next to a non-symmetric sibling, pattern in the opposite orientation'),
 'C04-2': ('C04', 'C04/mut2.diff', 'C04/demo_mut2.rs', 'get_group_compatible_weak_variants de-duplicates by the bijection instead of the weak shape'),
 'C05-1': ('C05', 'C05/mut1.diff', 'C05/demo_mut1.rs', 'final_subst keeps uncovered e-graph slot names instead of fresh ones: pattern slot named $f<n> equal to an internal slot name'),
 'C05-2': ('C05', 'C05/mut2.diff', 'C05/demo_mut2.rs', 'multi_ematch_step_node takes disequalities from public slots only: binder language, multi-pattern reusing the bound slot'),
 'C06-1': ('C06', 'C06/mut1.diff', 'C06/demo_mut1.rs', 'Extractor::new seeds one leaf per class: non-uniform leaf costs, class with two leaves'),
 'C06-2': ('C06', 'C06/mut2.diff', 'C06/demo_mut2.rs', 'AstSize loses saturating_add: ~64 doubling classes overflow u64'),
 'C09-1': ('C09', 'C09/mut1.diff', 'C09/demo_mut1.rs', 'pre_shape minimises over public instead of all slot occurrences: binder over a class whose symmetry moves the bound slot'),
 'C09-2': ('C09', 'C09/mut2.diff', 'C09/demo_mut2.rs', 'Bind::weak_shape_impl drops the scope exit: shadowing binder followed by a free use of the same name in a later field'),
 'C11-2': ('C11', 'C11/mut2.diff', 'C11/demo_mut2.rs', 'is_bijection checks only neighbouring entries: non-linear pattern across e-nodes, naming where the middle name lies between the others'),
 'C12-1': ('C12', 'C12/mut1.diff', 'C12/demo_mut1.rs', 'move_to does not touch the surviving class when the inherited generators enlarge its group (order [sym, merge] vs [merge, sym])'),
 'C12-2': ('C12', 'C12/mut2.diff', 'C12/demo_mut2.rs', 'handle_pending compares slot counts instead of subset: redundant slot on a parent node, then another child shrinks'),
 'C14-1': ('C14', 'C14/mut1.diff', 'C14/demo_mut1.rs', 'move_to computes "changed" against the deprecated datum: surviving class improves, has parents'),
 'C14-2': ('C14', 'C14/mut2.diff', 'C14/demo_mut2.rs', 'update_analysis only for OnlyAnalysis items: deprecated class improves, parent chain not congruent'),
 'C15-1': ('C15', 'C15/mut1.diff', 'C15/demo_mut1.rs', 'Group::count loses its recursive factor: C3 -> S3 growth goes unnoticed by progress()'),
 'C15-2': ('C15', 'C15/mut2.diff', 'C15/demo_mut2.rs', 'sum_of_slots over syn_slots: a proven redundancy no longer moves the progress measure'),
 'C16-1': ('C16', 'C16/mut1.diff', 'C16/demo_mut1.rs', 'Bind::weak_shape_impl uses on_see_slot for the binder: shadowing names'),
 'C01b-1': ('C01', 'C01b/mut1.diff', 'C01b/demo_mut1.rs', 'determine_self_symmetries compares only public slot occurrences of the weak shapes: binder over a class with a 3-cycle symmetry'),
 'C01b-2': ('C01', 'C01b/mut2.diff', 'C01b/demo_mut2.rs', 'handle_pending hands a non-minimal variant to handle_congruence: child class with symmetry, parent whose syntactic form is not minimal, congruence after the symmetry'),
 'C02b-1': ('C02', 'C02b/mut1.diff', 'C02b/demo_mut1.rs', 'touched_class skips usages that live in the touched class itself: self-referential equation followed by a redundancy on the same class'),
 'C02b-2': ('C02', 'C02b/mut2.diff', 'C02b/demo_mut2.rs', 'handle_pending ignores an upward-merge hit in the same class: p(a(x),b(y)) = p(b(y),a(x)) then a(z) = b(z) implies a self-symmetry'),
 'C04b-1': ('C04', 'C04b/mut1.diff', 'C04b/demo_mut1.rs', 'ematch_node returns instead of continuing with the next variant when one variant fails on a child'),
 'C04b-2': ('C04', 'C04b/mut2.diff', 'C04b/demo_mut2.rs', 'apply_substs_cond drops substitutions whose classes were merged away by an earlier applier of the same call'),
 'C08b-1': ('C08', 'C08b/mut1.diff', 'C08b/demo_mut1.rs', 'unionfind_get_impl shortcut when the parent entry already points to a leader: chain of depth 2, leader shrank after the middle entry was written'),
 'C08b-2': ('C08', 'C08b/mut2.diff', 'C08b/demo_mut2.rs', 'pc_find keeps the stale syntactic invocation: a class shrinks twice (own union, then a child loses a slot)'),
 'C09b-1': ('C09', 'C09b/mut1.diff', 'C09b/demo_mut1.rs', 'same change as C09-1 (pre_shape key over public occurrences), found independently'),
 'C09b-2': ('C09', 'C09b/mut2.diff', 'C09b/demo_mut2.rs', 'lookup_internal filters by syn_slots instead of class slots: returned invocation carries redundant slots'),
 'C13b-1': ('C13', 'C13b/mut1.diff', 'C13b/demo_mut1.rs', 'unionfind_get_impl follows a single hop: uncompressed chain of length >= 3'),
 'C13b-2': ('C13', 'C13b/mut2.diff', 'C13b/demo_mut2.rs', 'unionfind_get_impl stores the compressed entry but returns the stale one'),
 'C06b-1': ('C06', 'C06b/mut1.diff', 'C06b/demo_mut1.rs', 'Extractor::extract canonicalises only the id of the query, not its slot map: extraction through a stale id that has slots'),
 'C06b-2': ('C06', 'C06b/mut2.diff', 'C06b/demo_mut2.rs', 'apply_slotmap_fresh called twice (children / result node): a redundant slot in a slot field and in a child argument of the cheapest node'),
 'C10b-1': ('C10', 'C10b/mut1.diff', 'C10b/demo_mut1.rs', 'schreiers_lemma skips the identity coset representative: needs >= 5 slots, e.g. generators (3 4) and (0 1)(2 3)'),
 'C10b-2': ('C10', 'C10b/mut2.diff', 'C10b/demo_mut2.rs', 'add_set fast path into the stabiliser without rebuilding the upper level: swap (0 1) first, then swap (1 2)'),
 'C05b-1': ('C05', 'C05b/mut1.diff', 'C05b/demo_mut1.rs', 'ematch_node zips the pattern node slots with n2 (children included) instead of clear_n2: node type with a child in front of a binder or slot, leading child with slots'),
 'C05b-2': ('C05', 'C05b/mut2.diff', 'C05b/demo_mut2.rs', 'multipat update_state re-canonicalises only the keys of the disequality constraints: both ends renamed, one by a flexible-to-flexible union; four-equation multi-pattern'),
 'C11b-1': ('C11', 'C11b/mut1.diff', 'C11b/demo_mut1.rs', 'Group::add_set pushes perms that fix the stabilised slot into the inner group only (same idea as C10b-2, found independently): outcome depends on the sort order of the names'),
 'C11b-2': ('C11', 'C11b/mut2.diff', 'C11b/demo_mut2.rs', 'Group::generators_impl returns only the top layer (same site as C10-2): needs a stabiliser chain of depth >= 2, e.g. three independent swaps on six slots'),
 'C12b-1': ('C12', 'C12b/mut1.diff', 'C12b/demo_mut1.rs', 'touched_class overwrites the pending type: a later OnlyAnalysis touch downgrades a Full one; needs an analysis whose data changes during the union, terms inserted before the union'),
 'C12b-2': ('C12', 'C12b/mut2.diff', 'C12b/demo_mut2.rs', 'determine_self_symmetries stops after the first new symmetry: parent of a class with S3 (or of two symmetric children) inserted after the symmetries were asserted'),
 'C14b-1': ('C14', 'C14b/mut1.diff', 'C14b/demo_mut1.rs', 'update_analysis does not re-queue parents of a class already in the modify queue: datum improves twice within one rebuild (same child at two depths)'),
 'C14b-2': ('C14', 'C14b/mut2.diff', 'C14b/demo_mut2.rs', 'touched_class keeps the first pending type (OnlyAnalysis never upgraded to Full): parent queued analysis-only whose child is merged away by congruence in the same rebuild, then a later improvement'),
 'C15b-1': ('C15', 'C15b/mut1.diff', 'C15b/demo_mut1.rs', 'EGraph::progress sums syntactic slots: a round whose only effect is a new redundancy reports no change'),
 'C15b-2': ('C15', 'C15b/mut2.diff', 'C15b/demo_mut2.rs', 'Runner::run_one checks the limits before the iteration rewrites: NodeLimit reported for a final state below the limit (node count shrinks by congruence)'),
 'C16b-1': ('C16', 'C16b/mut1.diff', 'C16b/demo_mut1.rs', 'Bind::all_slot_occurrences_iter_mut chains the public occurrences of the element: only nested binders Bind<Bind<T>> lose the inner binder in the mutable list'),
 'C16b-2': ('C16', 'C16b/mut2.diff', 'C16b/demo_mut2.rs', 'refresh_private renames by slot name instead of private position: bound slot named like a free slot of the same node'),
 'C17b-1': ('C17', 'C17b/mut1.diff', 'C17b/demo_mut1.rs', 'Slot::named strips all leading f characters: $ff3 decodes as $f3'),
 'C17b-2': ('C17', 'C17b/mut2.diff', 'C17b/demo_mut2.rs', 'numeric names encoded with a shift instead of checked_mul: numerals >= 2^30 alias small numeric slots'),
 'C18b-1': ('C18', 'C18b/mut1.diff', 'C18b/demo_mut1.rs', 'tokenizer fast path Slot::numeric for numerals: $1073741824 panics (dev) / aliases $0 (release)'),
 'C18b-2': ('C18', 'C18b/mut2.diff', 'C18b/demo_mut2.rs', 'MultiPattern::parse skips a non-variable child: ?x == (f ?a zero) accepted with one child on a binary node'),
 'C19b-1': ('C19', 'C19b/mut1.diff', 'C19b/demo_mut1.rs', 'SlotMap::remove of an absent key deletes the entry with the next larger key'),
 'C19b-2': ('C19', 'C19b/mut2.diff', 'C19b/demo_mut2.rs', 'SlotMap::union skips pairs whose value is already a key: slot sharing between the two sides, e.g. {0->1,1->2} u {2->0}'),
 'C03-1': ('C03', 'C03/mut1.diff', 'C03/demo_mut1.rs', 'pc_find only find-normalises the node (same site as C01-2): a child class becomes symmetric by add-comm, two parents differ only in its argument order and mention a permuted slot again'),
 'C03-2': ('C03', 'C03/mut2.diff', 'C03/demo_mut2.rs', 'SynExprSubst::subst without synify_app_id: b[x := t] panics once the body class has lost a parameter slot (second iteration)'),
 'C03b-2': ('C03', 'C03b/mut2.diff', 'C03b/demo_mut2.rs', 'pattern_subst takes the substitution method before instantiating b, x, t: a right side with two nested substitutions panics (unwrap on None)'),
 'C16-2': ('C16', 'C16/mut2.diff', 'C16/demo_mut2.rs', 'Bind::public_slot_occurrences_iter leaks inner binders: nested Bind<Bind<T>>'),
}
def main():
    for sid in sys.argv[1:]:
        prop, patch, demo, needs = SEEDS[sid]
        d = os.path.join(V, 'seeded', sid); os.makedirs(d, exist_ok=True)
        shutil.copy('/tmp/mut/out/' + patch, os.path.join(d, 'patch.diff')); shutil.copy('/tmp/mut/out/' + demo, os.path.join(d, 'demo.rs'))
        conf = '/tmp/mut/confirm/%s.txt' % sid
        meta = {'id': sid, 'property': prop, 'needs_to_manifest': needs, 'origin': 'independent sub-agent given only the property text',
                'confirmed': open(conf).read() if os.path.exists(conf) else None,
                'confirm_cmd': 'tools/confirm_seed.sh (scratch worktree: demo passes without the change, fails with it; cargo test --workspace: 82 pass + the 3 baseline failures)'}
        mp = os.path.join(d, 'meta.json')
        if os.path.exists(mp):
            old = json.load(open(mp)); meta['detected_by'] = old.get('detected_by')
        json.dump(meta, open(mp, 'w'), indent=1)
        print('registered', sid)
if __name__ == '__main__': main()
