"""C10 - class symmetries are exactly the generated permutation group.

Unit level: the crate-private Group<P> (new / contains / count / all_perms / orbit / generators / add_set, with Next::new, build_ot,
schreiers_lemma, find_lowest_nonstab, P = SlotMap) from MIR; the generators, a membership query and an added permutation are permutations
of n concrete slots with SYMBOLIC images.  Every path is split into the concrete permutation tuples its path condition admits (solver
enumeration) and compared with a brute-force closure.  Violations are replayed natively through the cfg hook (VerifGroup).
E-graph level: symmetric-leaf templates of the shared exploration (unions of a term with permuted copies, eq of further copies).
"""
import sys, time, json, re, itertools
import z3
from . import common, tmpl_props
from mirsmt.session import Session
from mirsmt.engine import *
from mirsmt.models import It
from mirsmt.tmpl import short_fn
from mirsmt import native

def closure(gens, n):
    ident = tuple(range(n)); G = {ident}; frontier = [ident]
    while frontier:
        x = frontier.pop()
        for g in gens:
            y = tuple(g[x[i]] for i in range(n))      # first x then g
            if y not in G: G.add(y); frontier.append(y)
            y2 = tuple(x[g[i]] for i in range(n))
            if y2 not in G: G.add(y2); frontier.append(y2)
    return G

def mk_map(items): return Struct({0: SVec([tup(slot(k), slot(v)) for k, v in items])}, 'SlotMap')

class PermVar:
    def __init__(self, tag, slots):
        self.imgs = [z3.BitVec('%s_%d' % (tag, i), 32) for i in range(len(slots))]; self.slots = slots
    def constrain(self, ex):
        for v in self.imgs: ex.assume(z3.Or(*[v == z3.BitVecVal(s, 32) for s in self.slots]))
        if len(self.imgs) > 1: ex.assume(z3.Distinct(*self.imgs))
    def map(self): return mk_map([(z3.BitVecVal(s, 32), v) for s, v in zip(self.slots, self.imgs)])
    def value(self, model): return tuple(self.slots.index(model.eval(v, model_completion=True).as_long()) for v in self.imgs)

def eval_perm(model, m, slots):
    """SlotMap value -> tuple over slot indices (None if not a permutation of the slots)"""
    d = {}
    for p in dd(m).f[0].items:
        k = model.eval(p.f[0].f[0], model_completion=True).as_long(); v = model.eval(p.f[1].f[0], model_completion=True).as_long(); d[k] = v
    try: return tuple(slots.index(d[s]) for s in slots)
    except (KeyError, ValueError): return None

def unit_case(S_, n, ngens, with_query, stats, findings, inconclusive, fixed=()):
    R = S_.resolver; R.tymap.clear(); R.tymap.update({'P': 'SlotMap'})
    ex = S_.executor()
    G = lambda name: R.M('Group::' + name)
    slots = [4 * i for i in range(n)]
    gens = [PermVar('g%d' % i, slots) for i in range(ngens)]; q = PermVar('q', slots); p_add = PermVar('p', slots)
    def entry(ex_):
        for g in gens: g.constrain(ex_)
        ident = {'i': mk_map([(z3.BitVecVal(s, 32), z3.BitVecVal(s, 32)) for s in slots])}
        hs = HS([mk_map([(z3.BitVecVal(slots[i], 32), z3.BitVecVal(slots[fp[i]], 32)) for i in range(n)]) for fp in fixed] + [g.map() for g in gens])
        # the generator set is a set: duplicates collapse (decided by the solver)
        uniq = HS()
        for x in hs.items:
            if not any(ex_.decide(val_eq(x, y)) for y in uniq.items): uniq.items.append(x)
        grp = {'g': ex_.call(G('new'), [Ref(ident, 'i'), uniq])}
        out = {'count': conc(ex_.call(G('count'), [Ref(grp, 'g')]))}
        out['perms'] = ex_.call(G('all_perms'), [Ref(grp, 'g')]).items
        out['orbits'] = [ex_.call(G('orbit'), [Ref(grp, 'g'), slot(z3.BitVecVal(s, 32))]).items for s in slots]
        out['generators'] = list(ex_.call(G('generators'), [Ref(grp, 'g')]).items)
        out['trivial'] = ex_.call(G('is_trivial'), [Ref(grp, 'g')])
        if with_query:
            q.constrain(ex_); p_add.constrain(ex_)
            qm = {'q': q.map()}
            c = ex_.call(G('contains'), [Ref(grp, 'g'), Ref(qm, 'q')]); out['contains'] = ex_.decide(c) if z3.is_expr(c) else bool(c)
            g2 = {'g': cp(grp['g'])}
            a = ex_.call(G('add_set'), [Ref(g2, 'g'), HS([p_add.map()])]); out['added'] = ex_.decide(a) if z3.is_expr(a) else bool(a)
            out['count2'] = conc(ex_.call(G('count'), [Ref(g2, 'g')]))
            qm2 = {'q': q.map()}
            c2 = ex_.call(G('contains'), [Ref(g2, 'g'), Ref(qm2, 'q')]); out['contains2'] = ex_.decide(c2) if z3.is_expr(c2) else bool(c2)
        return out
    allvars = [v for g in gens for v in g.imgs] + ((q.imgs + p_add.imgs) if with_query else [])
    name = 'Group on %d slots, %d symbolic generator(s)%s%s' % (n, ngens, ', symbolic membership query and added permutation' if with_query else '',
                                                            (' next to the concrete generator(s) %s' % (list(fixed),)) if fixed else '')
    t0 = time.time(); n_paths = 0; n_tuples = 0; bad = 0
    try:
        for pth in ex.explore(entry, max_paths=20000):
            n_paths += 1
            s = z3.Solver(); s.add(*pth['pc'])
            while s.check() == z3.sat:
                m = s.model(); n_tuples += 1
                gv = [tuple(fp) for fp in fixed] + [g.value(m) for g in gens]
                s.add(z3.Or(*[v != m.eval(v, model_completion=True) for v in allvars]))
                if pth['kind'] == 'panic':
                    findings.append({'n': n, 'gens': gv, 'what': 'panic: ' + pth['result']['msg'], 'q': q.value(m) if with_query else None, 'p': p_add.value(m) if with_query else None}); bad += 1; continue
                out = pth['result']; C = closure(gv, n); issues = []
                if out['count'] != len(C): issues.append('count %d, closure has %d' % (out['count'], len(C)))
                perms = [eval_perm(m, x, slots) for x in out['perms']]
                if None in perms or set(perms) != C or len(perms) != len(set(perms)): issues.append('all_perms %s != closure' % (perms,))
                for i, orb in enumerate(out['orbits']):
                    got = sorted(slots.index(m.eval(x.f[0], model_completion=True).as_long()) for x in orb); want = sorted({c[i] for c in C})
                    if got != want: issues.append('orbit(%d) %s != %s' % (i, got, want))
                gg = [eval_perm(m, x, slots) for x in out['generators']]
                if None in gg or closure(gg, n) != C: issues.append('generators() %s generate a different group' % (gg,))
                tr = out['trivial']; tr = (z3.is_true(z3.simplify(tr)) if z3.is_expr(tr) else bool(tr))
                if tr != (len(C) == 1): issues.append('is_trivial %s' % tr)
                if with_query:
                    qv, pv = q.value(m), p_add.value(m)
                    if out['contains'] != (qv in C): issues.append('contains(%s) = %s' % (qv, out['contains']))
                    C2 = closure(gv + [pv], n)
                    if out['added'] != (pv not in C): issues.append('add_set(%s) returned %s' % (pv, out['added']))
                    if out['count2'] != len(C2): issues.append('count after add_set %d, closure has %d' % (out['count2'], len(C2)))
                    if out['contains2'] != (qv in C2): issues.append('contains after add_set (%s) = %s' % (qv, out['contains2']))
                if issues:
                    bad += 1
                    findings.append({'n': n, 'gens': gv, 'what': '; '.join(issues)[:400], 'q': q.value(m) if with_query else None, 'p': p_add.value(m) if with_query else None})
    except (Unsupported, Budget) as e:
        inconclusive.append(name + ': ' + str(e)[:300])
    stats['paths'] += n_paths; stats['tuples'] += n_tuples; stats['fenc'] |= set(ex.inlined); stats['lmod'] |= ex.modelled; stats['solver_s'] += ex.t_solver; stats['branches'] += ex.n_branches
    return {'obligation': name, 'paths': n_paths, 'permutation_tuples_decided': n_tuples, 'violating_tuples': bad, 'wall_s': round(time.time() - t0, 1)}

def native_group(f):
    n = f['n']; slots = [4 * i for i in range(n)]
    def pm(p): return ' '.join('%d %d' % (slots[i], slots[p[i]]) for i in range(n))
    lines = ['case group:r', 'identity ' + pm(tuple(range(n)))] + ['gen ' + pm(g) for g in f['gens']] + ['build', 'count', 'perms', 'generators'] + ['orbit %d' % s for s in slots]
    if f.get('q') is not None: lines += ['contains ' + pm(f['q']), 'add ' + pm(f['p']), 'count', 'contains ' + pm(f['q'])]
    r = native.run_cases('\n'.join(lines) + '\n').get('group:r')
    if r is None or 'results' not in r: return None
    res = r['results']; off = 2 + len(f['gens'])
    C = closure(f['gens'], n); issues = []
    def parse_perm(t):
        d = dict(tuple(map(int, kv.split('>'))) for kv in t.split(',') if kv); return tuple(slots.index(d[s]) for s in slots)
    if any(x.startswith('panic') for x in res): issues.append('native panic: ' + next(x for x in res if x.startswith('panic')))
    else:
        if int(res[off]) != len(C): issues.append('count %s vs %d' % (res[off], len(C)))
        perms = [parse_perm(t.strip()) for t in res[off + 1].split('|')] if res[off + 1] else []
        if set(perms) != C or len(perms) != len(C): issues.append('all_perms differ')
        gg = [parse_perm(t.strip()) for t in res[off + 2].split('|')] if res[off + 2].strip() else []
        if closure(gg, n) != C: issues.append('generators() generate a different group')
        for i in range(n):
            got = sorted(slots.index(int(x)) for x in res[off + 3 + i].split(',') if x)
            if got != sorted({c[i] for c in C}): issues.append('orbit(%d)' % i)
        if f.get('q') is not None:
            b = off + 3 + n; C2 = closure(f['gens'] + [f['p']], n)
            if (res[b] == 'true') != (f['q'] in C): issues.append('contains')
            if (res[b + 1] == 'true') != (f['p'] not in C): issues.append('add_set result')
            if int(res[b + 2]) != len(C2): issues.append('count after add_set %s vs %d' % (res[b + 2], len(C2)))
            if (res[b + 3] == 'true') != (f['q'] in C2): issues.append('contains after add_set')
    return {'script': lines, 'native': res, 'issues': issues}

def unit(tier):
    t0 = time.time()
    S_ = Session((), True)
    stats = {'paths': 0, 'tuples': 0, 'fenc': set(), 'lmod': set(), 'solver_s': 0.0, 'branches': 0}
    findings = []; inconclusive = []; samples = []
    # quick also: stabiliser chains of depth >= 2 with concrete generators (two independent swaps on 4 slots, three on 6), one symbolic generator next to (0 1) on 4 slots,
    # and a single generator with cycles of different lengths, (0 1)(2 3 4) on 5 slots (order 6: its powers are not one orbit walk)
    plan = [(2, 1, True), (3, 1, True), (3, 2, False), (4, 0, False, ((1, 0, 2, 3), (0, 1, 3, 2))), (6, 0, False, ((1, 0, 2, 3, 4, 5), (0, 1, 3, 2, 4, 5), (0, 1, 2, 3, 5, 4))),
            (4, 1, False, ((1, 0, 2, 3),)), (5, 0, False, ((1, 0, 3, 4, 2),))] if tier == 'quick' else [(5, 0, False, ((1, 0, 3, 4, 2),)), (4, 0, False, ((1, 0, 2, 3), (0, 1, 3, 2))), (6, 0, False, ((1, 0, 2, 3, 4, 5), (0, 1, 3, 2, 4, 5), (0, 1, 2, 3, 5, 4))),(2, 1, True), (2, 2, True), (3, 1, True), (3, 2, True), (4, 1, False), (4, 2, False),
                                                                                                (5, 1, False, ((0, 1, 2, 4, 3),)), (5, 1, False, ((1, 0, 3, 2, 4),))]
    for n, g, wq, *fx in plan: samples.append(unit_case(S_, n, g, wq, stats, findings, inconclusive, fixed=fx[0] if fx else ()))
    violations = []; validated = 0; seen = set(); failed = {}
    for f in findings:
        key = 'unit:n%d:%s' % (f['n'], re.sub(r'[^\w]', '_', f['what'].split(';')[0].split('(')[0].split(' ')[0])[:30])
        if key in seen or failed.get(key, 0) >= 60: continue
        nat = native_group(f)
        if nat is None or not nat['issues']:
            # the native hash iteration order may differ from the modelled one: another tuple of the same finding class may reproduce
            failed[key] = failed.get(key, 0) + 1; continue
        seen.add(key); validated += 1
        path = common.write_replay('C10', key, {'property': 'C10', 'level': 'unit', 'finding': f, 'native': nat})
        violations.append((key, path, 'Group on %d slots with generators %s: %s; native: %s' % (f['n'], f['gens'], f['what'][:200], nat['issues'][:3])))
    for key, k in failed.items():
        if key not in seen: inconclusive.append('group finding class %s: %d symbolic counterexamples, none reproduces natively (the native hash iteration order differs from the modelled ones)' % (key, k))
    return {'samples': samples, 'violations': violations, 'inconclusive': inconclusive, 'states': stats['paths'], 'transitions': stats['branches'], 'validated': validated,
            'functions_encoded': sorted(short_fn(x) for x in stats['fenc']), 'library_models': sorted(stats['lmod']), 'solver_time_s': round(stats['solver_s'], 2), 'wall_s': time.time() - t0,
            'summary': '%d permutation tuples decided on %d paths' % (stats['tuples'], stats['paths']),
            'bounds': 'unit level: groups on <= %d slots with <= 2 symbolic generators (every generator tuple), one symbolic membership query and one symbolic added permutation on <= 3 slots%s; P = SlotMap' % (3 if tier == 'quick' else 4, '' if tier == 'quick' else '; 5 slots: one symbolic generator next to the concrete generator (3 4), resp. (0 1)(2 3)')}

def run(tier, seed=0):
    return tmpl_props.run('C10', tier, seed, unit(tier))

def replay(path):
    p = json.load(open(path))
    if p.get('level') == 'unit':
        nat = native_group(p['finding']); print('C10 replay:', json.dumps(nat)[:1200]); return 1 if nat and nat['issues'] else 0
    return tmpl_props.replay('C10', path)
