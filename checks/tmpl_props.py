"""Checks decided on the shared template exploration: C01 C02 C08 C09 C11 C12 C13(history) C10(e-graph level) C14."""
import os, sys, json, time, re, collections
from . import common
from mirsmt import runner, judge, native, catalog
from mirsmt.tmpl import F0_DEFAULT, NAMED_MAX

PROP_KINDS = collections.defaultdict(list)
for k, p in judge.KIND_PROP.items(): PROP_KINDS[p].append(k)

def frame_base(f):
    f = re.sub(r'<[^>]*>::', '', f)
    return f.split('::')[-1] if not f.endswith('}') else '::'.join(f.split('::')[-2:])

def panic_key(p):
    if not isinstance(p, dict): return 'panic'
    st = [frame_base(x) for x in p.get('stack', [])]
    out = []
    for x in reversed(st):
        if x in ('index', 'new') or x.startswith('{closure') or '{closure' in x: continue
        if x not in out: out.append(x)
        if len(out) == 2: break
    return 'panic@' + '<-'.join(out)

def finding_key(f, rec_panic=None):
    if f['kind'] == 'panic': return '%s:%s' % (panic_key(rec_panic), f['template'])
    return '%s:%s:step%s' % (f['template'], f['kind'], f['step'])

def select_templates(prop, tier):
    ts = _select_templates(prop, tier)
    only = os.environ.get('VERIF_ONLY')       # development aid: restrict a run to some templates (never set by the registered commands)
    if only: ts = [t for t in ts if t.name in only.split(',') or t.name.split('~')[0] in only.split(',')]
    return ts
def _select_templates(prop, tier):
    if prop == 'C07': return list(catalog.EXPLAIN) if tier == 'quick' else catalog.EXPLAIN + catalog.EXPLAIN_THOROUGH
    if prop == 'C03': return list(catalog.MODEL) if tier == 'quick' else catalog.MODEL + catalog.MODEL_THOROUGH
    ts = catalog.QUICK if tier == 'quick' else catalog.QUICK + catalog.THOROUGH
    def is_rw(t): return any(op[0] in ('ematch', 'mmatch', 'rewrite') for op in t.ops)
    def is_ex(t): return any(op[0] == 'extract' for op in t.ops)
    if prop == 'C06': return [t for t in ts if is_ex(t)]
    if prop == 'C14': return [t for t in ts if t.analysis != '()']
    if prop in ('C04', 'C05', 'C15'): return [t for t in ts if t.analysis == '()' and is_rw(t)]
    if prop == 'C08': return [t for t in ts if t.analysis == '()']          # consistency also after matching / rewriting steps
    if prop == 'C11': return list(ts)                                        # equivariance of every observable: equalities, matches, rewrite flags, extraction cost, analysis data
    if prop == 'C12': return [t for t in ts if not is_rw(t) and not is_ex(t) and (t.analysis == '()' or getattr(t, 'group', None))]   # reorder groups also with an analysis attached
    return [t for t in ts if t.analysis == '()' and not is_rw(t) and not is_ex(t)]

def hash_orders(tier): return ('ins', 'rev') if tier == 'quick' else ('ins', 'rev', 'rot')

def run(prop, tier, seed=0, extra=None):
    """extra: unit-level part of the same property: dict(samples, violations[(key, path, text)], inconclusive[], states, transitions, functions_encoded, library_models, solver_time_s, validated)"""
    t0 = time.time() - (extra or {}).get('wall_s', 0)
    templates = select_templates(prop, tier)
    tmap = {t.name: t for t in templates}
    feats = ('explanations',) if prop == 'C07' else ()
    hos = hash_orders(tier) if prop != 'C07' else (('ins',) if tier == 'quick' else ('ins', 'rev'))
    results = runner.explore_all(templates, features=feats, hash_orders=hos, budget_paths=5000, budget_s=3600 if tier == 'thorough' else 900)
    inconclusive = []; notes = []
    not_covered = []
    for (tn, ho), r in sorted(results.items()):
        if r.get('status') != 'ok':
            msg = 'template %s (%s): %s' % (tn, ho, r.get('reason', '?')[:300])
            not_covered.append(msg)
            # out of wall budget: the shape is reported as not covered (evidence + NOTE line), the verdict is about everything explored;
            # anything else (unsupported construct, executor error) leaves the check inconclusive
            if r.get('reason', '').startswith('Budget'): notes.append('not covered (wall budget): ' + msg)
            else: inconclusive.append(msg)
    n_valid, mism, nat = runner.validate_native(templates, results, features=feats)
    bad_records = set()
    for cid, d in mism:
        tn, ho, pi, ri = cid.split('|'); bad_records.add((tn, ho, int(pi), int(ri)))
    for cid, d in mism[:5]: inconclusive.append('symbolic record %s disagrees with the native run (not used for any verdict): %s' % (cid, json.dumps(d, default=str)[:400]))
    findings = runner.judge_all(templates, results)
    # a record whose native run differs from the symbolic one gives no verdict through the encoding; the native run of the
    # solver-proposed names is a run of the real code, though, and is judged against the oracle on its own
    native_findings = []
    for cid, d in mism:
        tn, ho, pi, ri = cid.split('|'); n = nat.get(cid)
        if not n or 'steps' not in n: continue
        rec = results[(tn, ho)]['paths'][int(pi)]['records'][int(ri)]
        nrec = dict(n, pattern=rec['pattern'], values=rec['values'])
        try: fs = (judge.judge_model_record if getattr(tmap[tn], 'model', False) else judge.judge_record)(tmap[tn], nrec)
        except Exception: continue
        for kind, step, detail in fs:
            native_findings.append({'template': tn, 'hash_order': ho, 'path': int(pi), 'pattern': rec['pattern'], 'values': rec['values'], 'kind': kind,
                                    'prop': judge.KIND_PROP.get(kind, '?'), 'step': step, 'detail': detail, 'native_only': True})
    checks_build = None
    if prop == 'C08' and tier == 'thorough':
        # the same histories on the MIR dumped with --features checks (the crate's internal assertions compiled in)
        qn = {t.name for t in catalog.QUICK}
        base = [t for t in templates if t.name in qn and not any(op[0] in ('ematch', 'mmatch', 'rewrite', 'extract') for op in t.ops)]      # the quick catalogue (the large thorough shapes exceed the budget under the checks build)
        r2 = runner.explore_all(base, features=('checks',), hash_orders=('ins',), budget_paths=5000, budget_s=1500)
        for (tn, ho), r in sorted(r2.items()):
            if r.get('status') != 'ok': (notes if r.get('reason', '').startswith('Budget') else inconclusive).append('not covered (wall budget): checks build, template %s: %s' % (tn, r.get('reason', '?')[:300]))
        nv2, mism2, _ = runner.validate_native(base, r2, features=('checks',))
        for cid, d in mism2[:3]: inconclusive.append('checks build: symbolic record %s disagrees with the native run: %s' % (cid, json.dumps(d, default=str)[:300]))
        bad2 = {tuple(cid.split('|')[:1]) for cid, d in mism2}
        f2 = [dict(f, template=f['template'], checks_build=True) for f in runner.judge_all(base, r2) if f['prop'] == 'C08']
        checks_build = {'templates': len(base), 'records_validated': nv2, 'paths': sum(r['stats'].get('paths', 0) for r in r2.values() if r.get('status') == 'ok'), 'findings': len(f2)}
        n_valid += nv2
        for f in f2:
            f['hash_order'] = 'ins'
            for pi, p in enumerate(r2[(f['template'], 'ins')]['paths']):
                pass
        findings_checks = f2
    else: findings_checks = []
    known = common.load_known()
    violations = {}; known_hits = {}
    rec_index = {}; cmp_index = {}
    for (tn, ho), r in results.items():
        if r.get('status') != 'ok': continue
        for pi, p in enumerate(r['paths']):
            for ri, rec in enumerate(p['records']):
                if (tn, ho, pi, ri) in bad_records:
                    # the native run of these names is a real run all the same: it takes part in the cross-record comparisons (C11, C12)
                    n = nat.get('%s|%s|%d|%d' % (tn, ho, pi, ri))
                    if n and 'steps' in n and len(n['steps']) == len(rec['steps']): cmp_index[(tn, ho, pi, tuple(rec['pattern']))] = dict(n, pattern=rec['pattern'], values=rec['values'], native_only=True)
                    continue
                rec_index[(tn, ho, pi, tuple(rec['pattern']))] = rec; cmp_index[(tn, ho, pi, tuple(rec['pattern']))] = rec
    def report(f, key, text):
        km = common.known_match(known, prop, key)
        if km: known_hits.setdefault(key, 'key=%s %s' % (key, km['text'])); return
        if key in violations: return
        tmpl = tmap[f['template']]
        payload = {'property': prop, 'kind': 'template', 'template': tmpl.name, 'lang': tmpl.lang, 'analysis': tmpl.analysis, 'nnames': tmpl.nnames,
                   'ops': tmpl.ops, 'distinct': tmpl.distinct, 'values': f['values'], 'pattern': f['pattern'], 'finding': f, 'f0': F0_DEFAULT, 'named_max': NAMED_MAX,
                   'history': tmpl.describe(), 'key': key, 'late': {str(k): v for k, v in (tmpl.late or {}).items()}, 'light': bool(getattr(tmpl, 'light', False)), 'subst_method': getattr(tmpl, 'subst_method', None), 'model': bool(getattr(tmpl, 'model', False))}
        path = common.write_replay(prop, key, payload)
        violations[key] = (key, path, text)
    if prop in ('C07', 'C03', 'C01', 'C02', 'C04', 'C05', 'C06', 'C08', 'C09', 'C13', 'C14', 'C15', 'C10'):   # kinds of judge.KIND_PROP
        for f in findings:
            if f['prop'] != prop and not (prop == 'C10' and f['kind'] in ('sym_extra', 'sym_missing', 'unsound_eq', 'missing_eq') and f['template'].startswith(('TH', 'TW', 'TORB', 'T4', 'B4', 'B5'))): continue
            rec = rec_index.get((f['template'], f['hash_order'], f['path'], tuple(f['pattern'])))
            if rec is None: continue      # record not validated natively: no verdict from it
            key = finding_key(f, rec.get('panic') if rec else None)
            report(f, key, '%s in template %s [%s] names=%s step=%s detail=%s' % (f['kind'], f['template'], tmap[f['template']].describe(), f['values'], f['step'], json.dumps(f['detail'], default=str)[:200]))
        for f in native_findings:
            if f['prop'] != prop: continue
            key = 'native:' + ('panic:%s' % f['template'] if f['kind'] == 'panic' else finding_key(f))
            report(f, key, '[native run of solver-proposed names; the symbolic record differs] %s in template %s [%s] names=%s step=%s detail=%s' % (
                f['kind'], f['template'], tmap[f['template']].describe(), f['values'], f['step'], json.dumps(f['detail'], default=str)[:200]))
    for f in findings_checks:
        rp = None
        key = ('checks-build:' + (('%s:%s' % (panic_key(None), f['template'])) if f['kind'] == 'panic' else '%s:%s:step%s' % (f['template'], f['kind'], f['step'])))
        if f['kind'] == 'panic':
            recs = [rec for p in r2[(f['template'], 'ins')]['paths'] for rec in p['records'] if rec['pattern'] == f['pattern'] and rec.get('panic')]
            if recs: key = 'checks-build:%s:%s' % (panic_key(recs[0]['panic']), f['template'])
        report(f, key, '[build with internal checks] %s in template %s names=%s step=%s detail=%s' % (f['kind'], f['template'], f['values'], f['step'], json.dumps(f['detail'], default=str)[:200]))
    n_cmp = 0
    if prop == 'C11':
        # all paths (name orders) and hash iteration orders of one coincidence pattern must yield the same observables
        groups = collections.defaultdict(list)
        for (tn, ho, pi, pat), rec in cmp_index.items(): groups[(tn, pat)].append((ho, pi, rec))
        for (tn, pat), lst in groups.items():
            base = judge.observable_view(lst[0][2]); n_cmp += len(lst) - 1
            for ho, pi, rec in lst[1:]:
                v = judge.observable_view(rec)
                if v != base:
                    d = first_diff(base, v)
                    f = {'template': tn, 'hash_order': ho, 'path': pi, 'pattern': list(pat), 'values': rec['values'], 'kind': 'not_equivariant', 'step': d[0], 'detail': {'other_values': lst[0][2]['values'], 'diff': d}}
                    if rec.get('panic') or lst[0][2].get('panic'):
                        key = '%s:%s' % (panic_key(rec.get('panic') or lst[0][2].get('panic')), tn)
                    else: key = '%s:not_equivariant:step%s' % (tn, d[0])
                    report(f, key, 'names %s and %s have the same sharing pattern %s but observables differ at step %s (%s) in [%s]' % (lst[0][2]['values'], rec['values'], list(pat), d[0], d[1], tmap[tn].describe()))
    if prop == 'C12':
        # templates of one reorder group: same final equivalence / class count / per-term slots and symmetries per pattern
        by_group = collections.defaultdict(list)
        for t in templates:
            if getattr(t, 'group', None): by_group[t.group].append(t)
        for gname, ts in by_group.items():
            base_t = ts[0]
            for other in ts[1:]:
                for (tn, ho, pi, pat), rec in cmp_index.items():
                    if tn != other.name: continue
                    # the same pattern in the base template (names are shared between variants)
                    for (tn2, ho2, pi2, pat2), rec2 in cmp_index.items():
                        if tn2 != base_t.name or pat2 != pat or ho2 != ho: continue
                        n_cmp += 1
                        d = order_diff(base_t, rec2, other, rec)
                        if d:
                            f = {'template': other.name, 'hash_order': ho, 'path': pi, 'pattern': list(pat), 'values': rec['values'], 'kind': 'order_dependent', 'step': len(rec['steps']) - 1, 'detail': d}
                            if rec.get('panic') or rec2.get('panic'): key = '%s:%s' % (panic_key(rec.get('panic') or rec2.get('panic')), tn)
                            else: key = '%s:order_dependent:%s' % (other.name, d[0])
                            report(f, key, 'history [%s] and its reordering [%s] disagree on %s for names %s' % (base_t.describe(), other.describe(), d, rec['values']))
                        break
    selftest = None
    if prop == 'C07':
        # vacuity guard for the proof checker: mutants of every accepted proof (flipped query / leaf, other justification, exchanged premises, relabelled step) must be rejected
        from mirsmt import proofcheck
        g = r_ = 0; acc = []
        for (tn, ho, pi, pat), rec in rec_index.items():
            for k, st in enumerate(rec['steps']):
                if st.get('explain'):
                    a, b, c = proofcheck.self_test(st['explain'], judge.explain_query(tmap[tn], list(pat), k), judge.asserted_equations(tmap[tn], list(pat), k))
                    g += a; r_ += b; acc += ['%s step %d: %s' % (tn, k, x) for x in c]
        selftest = {'proof_mutants_generated': g, 'proof_mutants_rejected': r_, 'accepted_mutants': sorted(set(acc))[:20]}
        if g and r_ < g: notes.append('proof checker self test: %d of %d mutants accepted: %s' % (g - r_, g, sorted(set(acc))[:5]))
    # ---- evidence
    paths = sum(r['stats'].get('paths', 0) for r in results.values() if r.get('status') == 'ok')
    branches = sum(r['stats'].get('branches', 0) for r in results.values() if r.get('status') == 'ok')
    records = len(rec_index)
    fenc = sorted({f for r in results.values() for f in r.get('stats', {}).get('functions_encoded', [])})
    lmod = sorted({f for r in results.values() for f in r.get('stats', {}).get('library_models', [])})
    samples = []
    for t in templates:
        pats = collections.Counter()
        for (tn, ho, pi, pat) in rec_index:
            if tn == t.name: pats[pat] += 1
        samples.append({'template': t.name, 'history': t.describe(), 'symbolic_names': t.nnames, 'tied_distinct': t.distinct, 'note': t.note,
                        'paths': sum(r_['stats'].get('paths', 0) for (tn_, ho_), r_ in results.items() if tn_ == t.name and r_.get('status') == 'ok'),
                        'coincidence_patterns_covered': len(pats), 'records': sum(pats.values())})
    cov = {'states': max(paths, 1), 'transitions': max(branches, 1), 'traces_validated_against_impl': n_valid, 'samples': samples,
           'evaluations': records, 'distinct_nontrivial': len({(tn, pat) for (tn, ho, pi, pat) in rec_index}),
           'rule': 'one evaluation = one (path, coincidence pattern) record of a template; distinct = distinct (template, coincidence pattern); every record is non-trivial: it contains at least one insertion',
           'functions_encoded': fenc, 'library_models': lmod, 'hash_iteration_orders': list(hos), 'cargo_features': list(feats),
           'solver_time_s': round(sum(r['stats'].get('solver_s', 0) for r in results.values() if r.get('status') == 'ok'), 2),
           'solver_queries': sum(r['stats'].get('solver_queries', 0) for r in results.values() if r.get('status') == 'ok'),
           'cross_record_comparisons': n_cmp, 'obligation_kinds': PROP_KINDS.get(prop, []) or [prop + ' cross-record comparison'],
           'bounds': 'template shapes listed under samples; every slot name a free 32-bit value (fresh-class names below the start counter %d, interned names below %d, unused residue class excluded); default build; SmallVec model capacity as declared' % (F0_DEFAULT, NAMED_MAX),
           'templates_not_covered': not_covered, 'mir_hash': next(iter(results.values())).get('mir_hash'), 'cache_hits': sum(1 for r in results.values() if r.get('cache_hit')),
           'known_findings_hit': sorted(known_hits), 'checks_feature_build': checks_build, 'exhaustive': False}
    if selftest: cov['proof_checker_self_test'] = selftest
    assumptions = ['library models of mirsmt/models.py (containers as sequences / association lists; iteration order of hash containers = insertion order, also reversed%s)' % ('' if tier == 'quick' else ' and rotated'),
                   ('oracle: exhaustive evaluation of every dumped e-graph in the finite model GF(3) with summation and let binders (mirsmt/model_eval.py): every environment of every class, not a sample' if prop == 'C03' else
                    'oracle: brute-force ground congruence closure over a pool of (#names + 3) names (mirsmt/oracle.py)'),
                   'every symbolic record was re-run natively on the real crate under the concrete names of its model and compared field by field',
                   'histories outside the listed template shapes are outside the claim']
    if extra:
        cov['samples'] = extra.get('samples', []) + cov['samples']
        cov['states'] += extra.get('states', 0); cov['transitions'] += extra.get('transitions', 0)
        cov['traces_validated_against_impl'] += extra.get('validated', 0)
        cov['functions_encoded'] = sorted(set(cov['functions_encoded']) | set(extra.get('functions_encoded', [])))
        cov['library_models'] = sorted(set(cov['library_models']) | set(extra.get('library_models', [])))
        cov['solver_time_s'] = round(cov['solver_time_s'] + extra.get('solver_time_s', 0), 2)
        cov['unit_level'] = extra.get('summary')
        cov['bounds'] = extra.get('bounds', '') + ' | history level: ' + cov['bounds']
        inconclusive.extend(extra.get('inconclusive', []))
        for key, path, text in extra.get('violations', []):
            km = common.known_match(known, prop, key)
            if km: known_hits.setdefault(key, 'key=%s %s' % (key, km['text']))
            else: violations[key] = (key, path, text)
    common.write_evidence(prop, tier, 'model_checking', cov, assumptions, time.time() - t0, len(violations), seed)
    return common.finish(prop, list(violations.values()), list(known_hits.items()), inconclusive, notes)

def first_diff(a, b):
    if a['panic'] != b['panic']: return (len(a['steps']), 'panic')
    for i, (x, y) in enumerate(zip(a['steps'], b['steps'])):
        for k in x:
            if x[k] != y.get(k): return (i, k)
    if len(a['steps']) != len(b['steps']): return (min(len(a['steps']), len(b['steps'])), 'steps')
    return (0, '?')

def order_diff(t1, r1, t2, r2):
    """compare final observables of two orderings of the same history by term"""
    if bool(r1.get('panic')) != bool(r2.get('panic')): return ('panic', bool(r1.get('panic')), bool(r2.get('panic')))
    if r1.get('panic'): return None
    h1 = judge.handle_terms(t1, len(t1.ops)); h2 = judge.handle_terms(t2, len(t2.ops))
    s1, s2 = r1['steps'][-1], r2['steps'][-1]
    if len(s1['live']) != len(s2['live']): return ('live', len(s1['live']), len(s2['live']))
    common_terms = [t for t in h1 if t in h2]
    for a in common_terms:
        i1, i2 = h1.index(a), h2.index(a)
        c1, c2 = s1['canon'][i1], s2['canon'][i2]
        if c1['nslots'] != c2['nslots'] or c1['vals'] != c2['vals']: return ('slots', a, c1['vals'], c2['vals'])
        g1 = s1['classes'][str(c1['id'])]['gcount']; g2 = s2['classes'][str(c2['id'])]['gcount']
        if g1 != g2: return ('symmetries', a, g1, g2)
        for b in common_terms:
            j1, j2 = h1.index(b), h2.index(b)
            if s1['eq'][i1][j1] != s2['eq'][i2][j2]: return ('eq', a, b, s1['eq'][i1][j1], s2['eq'][i2][j2])
    return None

def replay(prop, path):
    """re-runs a recorded counterexample natively (dev and release builds of the real crate) and judges it with the oracle"""
    from mirsmt.tmpl import Template
    p = json.load(open(path))
    t = Template(p['template'], p['lang'], p['nnames'], [tuple(judge.tuple_term(o)) for o in p['ops']], p.get('analysis', '()'), p.get('distinct'), late={int(k): v for k, v in (p.get('late') or {}).items()} or None,
                 subst_method=p.get('subst_method'), model=bool(p.get('model')))
    if p.get('light'): t.light = True
    ok = True
    for prof in ('release', 'dev'):
        out = native.run_cases(native.case_text('replay', t, p['values'], p.get('f0', F0_DEFAULT), p.get('named_max', NAMED_MAX)), prof, features=(('explanations',) if prop == 'C07' else ()))
        rec = out['replay']; rec['pattern'] = p['pattern']; rec['values'] = p['values']
        fs = [f for f in (judge.judge_model_record if t.model else judge.judge_record)(t, rec) if judge.KIND_PROP.get(f[0]) == prop or prop in ('C11', 'C12')]
        print('replay (%s build): %s names=%s -> %s' % (prof, t.describe(), p['values'], fs[:5] if fs else ('panic: ' + str(rec.get('panic')) if rec.get('panic') else 'no discrepancy with the oracle')))
        if not fs and not rec.get('panic'): ok = False
    return 1 if ok else 0
