"""C17 - Fresh slots are globally new and slot names are injective.

One inductive step of every slot constructor (Slot::fresh, Slot::numeric, Slot::named, Display::fmt, all from MIR, with their
closures) from an ARBITRARY slot-table state under the representation invariant Inv; the table is SMT arrays, the invariant
stays quantified.  Names are the three canonical forms Num(k), F(k) ("f<k>"), Text(s).  Dev (overflow checks) and release
(wrapping) MIR variants.
"""
import sys, time, json, re
import z3
from . import common
from mirsmt.session import Session
from mirsmt.engine import *
from mirsmt.models import M, call_fn
from mirsmt import native

BV32 = z3.BitVecSort(32); BV64 = z3.BitVecSort(64)
Str = z3.DeclareSort('Str')
startsf = z3.Function('startsf', Str, z3.BoolSort())
numstr = z3.Function('numstr', BV32, Str); fstr = z3.Function('fstr', BV32, Str)       # the numeral of k, "f" + the numeral of k
numinv = z3.Function('numinv', Str, BV32); finv = z3.Function('finv', Str, BV32)
starts0 = z3.Function('starts0', Str, z3.BoolSort())
trimf = z3.Function('trimf', Str, Str)            # the text without its leading run of 'f' characters (str::trim_start_matches('f'))
kind = z3.Function('kind', Str, z3.BitVecSort(2))                                      # 0 numeral, 1 f+numeral, 2 any other text
def string_axioms():
    k = z3.BitVec('ax_k', 32)
    return [z3.ForAll([k], z3.And(kind(numstr(k)) == 0, numinv(numstr(k)) == k, z3.Not(startsf(numstr(k))))),
            z3.ForAll([k], z3.And(kind(fstr(k)) == 1, finv(fstr(k)) == k, startsf(fstr(k))))]
def skey(sv):
    return numstr(sv.x) if sv.kind == 'num' else fstr(sv.x) if sv.kind == 'fnum' else sv.x

class SV:      # abstract string: ('num', k) numeral of k | ('fnum', k) "f"+numeral | ('text', s) other text | ('tail', s) s[1..] of a text
    def __init__(self, kind, x): self.kind, self.x = kind, x
class VecObj:
    def __init__(self, arr, ln): self.arr, self.len = arr, ln
class MapObj:
    def __init__(self, present, val): self.present, self.val = present, val
class Fmt:
    def __init__(self): self.out = None

def S(x): return dd(x)

@M.add(r'^core::str::<impl str>::parse::<u32>$', front=True)
def c17_parse(ex, c, args, m):
    s = S(args[0])
    if not isinstance(s, SV): return NotImplemented
    if s.kind == 'num': return ok(s.x)
    if s.kind == 'text':        # a stored name may be a numeral that did not fit the numeric encoding
        if ex.decide(kind(s.x) == 0): return ok(numinv(s.x))
        return err(Opaque('ParseIntError'))
    if s.kind == 'tail':
        if ex.decide(kind(s.x) == 1): return ok(finv(s.x))
        return err(Opaque('ParseIntError'))
    if s.kind == 'trimf':      # a text without its leading f's: a numeral or not - nothing is known beyond trimf(fstr(k)) = numstr(k)
        if ex.decide(kind(trimf(s.x)) == 0): return ok(numinv(trimf(s.x)))
        return err(Opaque('ParseIntError'))
    return err(Opaque('ParseIntError'))
@M.add(r'^<u32 as ToString>::to_string$', front=True)
def c17_u32_to_string(ex, c, args, m):
    v = S(args[0])
    return SV('num', v) if z3.is_expr(v) else NotImplemented
@M.add(r'^<String as PartialEq<&?str>>::eq$|^<str as PartialEq<String>>::eq$|^<&str as PartialEq<String>>::eq$|^<String as PartialEq>::eq$|^<str as PartialEq>::eq$', front=True)
def c17_str_eq(ex, c, args, m):
    a, b = S(args[0]), S(args[1])
    if not (isinstance(a, SV) and isinstance(b, SV)): return NotImplemented
    if b.kind == 'num' and a.kind != 'num': a, b = b, a
    if a.kind == 'num':      # a canonical numeral against: another numeral, an f-numeral, a text, the tail (s[1..]) of a text that starts with f
        if b.kind == 'num': return a.x == b.x
        if b.kind == 'fnum': return z3.BoolVal(False)
        if b.kind == 'text': return numstr(a.x) == b.x
        if b.kind == 'tail': return b.x == fstr(a.x)          # "f" + numeral(k) is exactly fstr(k)
        if b.kind == 'trimf': return numstr(a.x) == trimf(b.x)
    if a.kind == b.kind and a.kind in ('text', 'fnum'): return a.x == b.x
    if {a.kind, b.kind} == {'text', 'fnum'}: return (a.x if a.kind == 'text' else b.x) == fstr(b.x if b.kind == 'fnum' else a.x)
    raise Unsupported('string comparison %s / %s' % (a.kind, b.kind))
@M.add(r'^core::str::<impl str>::starts_with::<', front=True)
def c17_starts(ex, c, args, m):
    s = S(args[0])
    if not isinstance(s, SV): return NotImplemented
    pat = S(args[1])
    pat = chr(pat) if isinstance(pat, int) else (chr(conc(pat)) if z3.is_expr(pat) else str(pat))
    if pat == '0':      # a canonical numeral starts with 0 only if it is "0"; an f-numeral never does; unknown for other text
        if s.kind == 'num': return s.x == 0
        if s.kind == 'fnum': return z3.BoolVal(False)
        if s.kind == 'trimf': return starts0(trimf(s.x))
        return starts0(s.x) if s.kind == 'text' else z3.And(kind(s.x) == 1, z3.Or(finv(s.x) == 0, s.x != fstr(finv(s.x))))
    if pat != 'f': raise Unsupported('starts_with(%r) on an abstract name' % pat)
    if s.kind == 'num': return z3.BoolVal(False)
    if s.kind == 'fnum': return z3.BoolVal(True)
    return startsf(s.x)
@M.add(r'^core::str::<impl str>::trim_start_matches::<', front=True)
def c17_trim_start(ex, c, args, m):
    s = S(args[0])
    if not isinstance(s, SV): return NotImplemented
    pat = S(args[1]); pat = chr(pat) if isinstance(pat, int) else (chr(conc(pat)) if z3.is_expr(pat) else str(pat))
    if pat != 'f': raise Unsupported('trim_start_matches(%r) on an abstract name' % pat)
    if s.kind == 'num': return s
    if s.kind == 'fnum': return SV('num', s.x)
    if s.kind == 'text': return SV('trimf', s.x) if ex.decide(startsf(s.x)) else s
    raise Unsupported('trim_start_matches on a ' + s.kind)
@M.add(r'^<str as Index<std::ops::RangeFrom<usize>>>::index$', front=True)
def c17_tail(ex, c, args, m):
    s = S(args[0])
    if not isinstance(s, SV): return NotImplemented
    return SV('num', s.x) if s.kind == 'fnum' else SV('tail', s.x)
@M.add(r'^<str as ToString>::to_string$|^<String as (std::ops::)?Deref>::deref$|^String::as_str$', front=True)
def c17_tostring(ex, c, args, m):
    s = S(args[0])
    return s if isinstance(s, SV) else NotImplemented
@M.add(r'^std::collections::HashMap::<String, u32, .*>::get::<', front=True)
def c17_map_get(ex, c, args, m):
    mp = S(args[0])
    if not isinstance(mp, MapObj): return NotImplemented
    s = S(args[1])
    if s.kind == 'tail': raise Unsupported('map lookup of a string tail')
    if ex.decide(z3.Select(mp.present, skey(s))): return some(Ref({'v': z3.Select(mp.val, skey(s))}, 'v'))
    return none()
@M.add(r'^std::collections::HashMap::<String, u32, .*>::insert$', front=True)
def c17_map_insert(ex, c, args, m):
    r = args[0]; mp = r.c[r.k]
    if not isinstance(mp, MapObj): return NotImplemented
    s = args[1]
    r.c[r.k] = MapObj(z3.Store(mp.present, skey(s), True), z3.Store(mp.val, skey(s), args[2])); return none()
@M.add(r'^Vec::<String>::len$', front=True)
def c17_vec_len(ex, c, args, m):
    v = S(args[0]); return v.len if isinstance(v, VecObj) else NotImplemented
@M.add(r'^Vec::<String>::push$', front=True)
def c17_vec_push(ex, c, args, m):
    r = args[0]; v = r.c[r.k]
    if not isinstance(v, VecObj): return NotImplemented
    r.c[r.k] = VecObj(z3.Store(v.arr, v.len, skey(args[1])), v.len + 1); return Unit()
@M.add(r'^<Vec<String> as Index<usize>>::index$', front=True)
def c17_vec_index(ex, c, args, m):
    v = S(args[0])
    if not isinstance(v, VecObj): return NotImplemented
    if not ex.decide(z3.ULT(args[1], v.len)): raise Panic('index out of bounds (named_vec)')
    return Ref({'v': SV('text', z3.Select(v.arr, args[1]))}, 'v')

def decode_fmt(raw):
    """rustc's compact format-template bytes: <len><literal bytes> | 0xc0 = next argument | 0x00 = end"""
    b = bytes(raw, 'latin-1').decode('unicode_escape').encode('latin-1')
    out = []; i = 0
    while i < len(b):
        x = b[i]
        if x == 0: break
        if x == 0xc0: out.append(('arg',)); i += 1
        elif x < 0x80: out.append(b[i+1:i+1+x].decode('latin-1')); i += 1 + x
        else: raise Unsupported('format template byte %#x' % x)
    return out

def write_hook(ex, op, args):
    f = S(args[0])
    if not isinstance(f, Fmt) or op != 'write_fmt': raise Unsupported('formatter op ' + op)
    a = args[1]
    pieces = decode_fmt(a.f['s'] if isinstance(a.f['s'], str) else '')
    arr = S(a.f['args'][0]); fa = arr.f[0]; val = S(fa.f[0]); kind = fa.f['callee']
    if pieces == ['$', ('arg',)]:
        f.out = SV('num', val) if '<u32>' in kind else val
    elif pieces == ['$f', ('arg',)]: f.out = SV('fnum', val)
    else: raise Unsupported('unexpected format template %r' % (pieces,))
    return ok(Unit())

def fresh_state(tag):
    idx = z3.BitVec('idx_' + tag, 32)
    arr = z3.Array('vec_' + tag, BV64, Str); ln = z3.BitVec('len_' + tag, 64)
    pres = z3.Array('pres_' + tag, Str, z3.BoolSort()); val = z3.Array('val_' + tag, Str, BV32)
    issued = z3.Array('issued_' + tag, BV32, z3.BoolSort())
    return idx, VecObj(arr, ln), MapObj(pres, val), issued

def inv(idx, vec, mp, issued, q=''):
    x = z3.BitVec('qx' + q, 32); s = z3.Const('qs' + q, Str); i = z3.BitVec('qi' + q, 64)
    return [z3.URem(idx, 4) == 1,
            z3.ULT(vec.len, 1 << 30),
            z3.ForAll([x], z3.Implies(z3.And(z3.Select(issued, x), z3.URem(x, 4) == 1), z3.ULT(x, idx))),
            z3.ForAll([s], z3.Implies(z3.Select(mp.present, s), z3.And(z3.URem(z3.Select(mp.val, s), 4) == 2,
                       z3.ULT(z3.ZeroExt(32, z3.UDiv(z3.Select(mp.val, s) - 2, 4)), vec.len),
                       z3.Select(vec.arr, z3.ZeroExt(32, z3.UDiv(z3.Select(mp.val, s) - 2, 4))) == s))),
            z3.ForAll([s], z3.Implies(z3.Select(mp.present, s), z3.And(z3.Implies(kind(s) == 0, z3.UGE(numinv(s), 1 << 30)), z3.Implies(kind(s) == 1, z3.UGE(finv(s), (1 << 30) - 1))))),
            z3.ForAll([i], z3.Implies(z3.ULT(i, vec.len), z3.And(z3.Select(mp.present, z3.Select(vec.arr, i)),
                       z3.Select(mp.val, z3.Select(vec.arr, i)) == 4 * z3.Extract(31, 0, i) + 2)))]

def inv_instances(idx, vec, mp, issued, xs, ss, is_):
    """ground instances of the quantified conjuncts of Inv and of the string axioms at the given terms (consequences of Inv: sound as hypotheses)"""
    out = []
    ss = list(ss); is_ = list(is_)
    for i in list(is_): ss.append(z3.Select(vec.arr, i))
    for s_ in list(ss): is_.append(z3.ZeroExt(32, z3.UDiv(z3.Select(mp.val, s_) - 2, 4)))
    for x in xs: out.append(z3.Implies(z3.And(z3.Select(issued, x), z3.URem(x, 4) == 1), z3.ULT(x, idx)))
    for s_ in ss:
        v = z3.Select(mp.val, s_); j = z3.ZeroExt(32, z3.UDiv(v - 2, 4))
        out.append(z3.Implies(z3.Select(mp.present, s_), z3.And(z3.URem(v, 4) == 2, z3.ULT(j, vec.len), z3.Select(vec.arr, j) == s_)))
        out.append(z3.Implies(z3.Select(mp.present, s_), z3.And(z3.Implies(kind(s_) == 0, z3.UGE(numinv(s_), 1 << 30)), z3.Implies(kind(s_) == 1, z3.UGE(finv(s_), (1 << 30) - 1)))))
    for i in is_:
        out.append(z3.Implies(z3.ULT(i, vec.len), z3.And(z3.Select(mp.present, z3.Select(vec.arr, i)), z3.Select(mp.val, z3.Select(vec.arr, i)) == 4 * z3.Extract(31, 0, i) + 2)))
    return out
def axiom_instances(ks, ss):
    out = []
    for k in ks:
        out.append(z3.And(kind(numstr(k)) == 0, numinv(numstr(k)) == k, z3.Not(startsf(numstr(k)))))
        out.append(z3.And(kind(fstr(k)) == 1, finv(fstr(k)) == k, startsf(fstr(k))))
    return out

class Prover:
    """stage A: quantifier-free hypotheses + ground instances (unsat => holds; sat => candidate model);
    stage B: the quantified hypotheses (unsat => holds, sat => violated, unknown => the candidate is replayed natively by the caller)"""
    def __init__(self): self.results = []; self.t = 0.0; self.inst = lambda: []
    def prove(self, name, hyps, goal):
        t = time.time()
        qf = [h for h in hyps if not z3.is_quantifier(h)]
        s = z3.Solver(); s.set('timeout', 30000); s.add(*qf); s.add(*self.inst()); s.add(z3.Not(goal)); r = s.check()
        res = {'obligation': name, 'stage': 'ground instances'}
        if r == z3.unsat: res['verdict'] = 'holds'
        else:
            cand = None
            if r == z3.sat:
                s.push(); s.add(z3.ULT(z3.BitVec('len_0', 64), 64))       # prefer a model that can be replayed natively (few interned names)
                if s.check() != z3.sat: s.pop(); s.check()
                m = s.model(); cand = {str(d): str(m[d]) for d in m.decls() if d.arity() == 0 and str(d).split('_')[0] in ('idx', 'k', 'len', 'slot')}
            s2 = z3.Solver(); s2.set('timeout', 10000); s2.add(*string_axioms()); s2.add(*hyps); s2.add(z3.Not(goal)); r2 = s2.check()
            res['stage'] = 'quantified'
            if r2 == z3.unsat: res['verdict'] = 'holds'
            elif r2 == z3.sat:
                m = s2.model(); res['verdict'] = 'VIOLATED'; res['model'] = {str(d): str(m[d]) for d in m.decls() if d.arity() == 0 and str(d).split('_')[0] in ('idx', 'k', 'len', 'slot')}
            elif cand is not None: res['verdict'] = 'CANDIDATE'; res['model'] = cand
            else: res['verdict'] = 'unknown'
        res['time_s'] = round(time.time() - t, 3); self.t += time.time() - t
        self.results.append(res); return res

def run_variant(overflow, P):
    S_ = Session((), overflow); R = S_.resolver
    ex = S_.executor(); ex.write_hook = write_hook
    fresh, numeric, named, fmt = R.M('Slot::fresh'), R.M('Slot::numeric'), R.M('Slot::named'), R.M('<Slot as Display>::fmt')
    tag = 'dev' if overflow else 'rel'
    idx, vec, mp, issued = fresh_state('0')
    def table(): return Struct({0: idx, 1: VecObj(vec.arr, vec.len), 2: MapObj(mp.present, mp.val)}, 'SlotTable')
    _x0 = z3.BitVec('x0', 32); _kn = z3.BitVec('k_n', 32); _kf = z3.BitVec('k_f', 32); _s0 = z3.Const('s0', Str); _s1 = z3.Const('s1', Str); _sq = z3.Const('sq', Str)
    _iq = z3.BitVec('iq', 64); _slv = z3.BitVec('slot_rt', 32)
    def instances():
        xs = [_x0, idx, 4 * _kf + 1, _slv]
        ss = [_s0, _s1, _sq, numstr(_kn), fstr(_kf)]
        is_ = [_iq, vec.len, z3.ZeroExt(32, z3.UDiv(_slv - 2, 4))]
        nm = z3.Select(vec.arr, z3.ZeroExt(32, z3.UDiv(_slv - 2, 4)))
        return inv_instances(idx, vec, mp, issued, xs, ss, is_) + axiom_instances([_kn, _kf, numinv(nm), finv(nm), numinv(_sq), finv(_sq)], [])
    P.inst = instances
    def post_inv(t, iss2, hyps, name):
        """Inv of the post state, conjunct by conjunct"""
        x0 = z3.BitVec('x0', 32)
        P.prove(name + ':inv.counter_class', hyps, z3.URem(t.f[0], 4) == 1)
        P.prove(name + ':inv.issued_below_counter', hyps, z3.Implies(z3.And(z3.Select(iss2, x0), z3.URem(x0, 4) == 1), z3.ULT(x0, t.f[0])))
    # ---- fresh(): one step from an arbitrary valid state
    hyp = inv(idx, vec, mp, issued) + [z3.ULE(idx, (1 << 32) - 8)]           # bound: fewer than 2^30-2 fresh slots issued so far
    def entry(ex_):
        ex_.table['tab'] = table(); r = ex_.call(fresh, []); return (r, ex_.table['tab'])
    for p in ex.explore(entry):
        pc = p['pc']
        if p['kind'] == 'panic': P.prove('%s fresh:no_panic[%s]' % (tag, p['result']['msg'][:40]), hyp, z3.Not(z3.And(*pc))); continue
        r, t = p['result']; sl = r.f[0]
        P.prove(tag + ' fresh:class1', hyp + pc, z3.URem(sl, 4) == 1)
        P.prove(tag + ' fresh:not_issued_before', hyp + pc, z3.Not(z3.Select(issued, sl)))
        post_inv(t, z3.Store(issued, sl, True), hyp + pc, tag + ' fresh')
        P.prove(tag + ' fresh:strictly_increasing', hyp + pc, z3.UGT(t.f[0], sl))
    # ---- numeric(k)
    k = z3.BitVec('k_num', 32)
    for p in ex.explore(lambda ex_: ex_.call(numeric, [k])):
        h = [z3.ULT(k, 1 << 30)]
        if p['kind'] == 'panic': P.prove(tag + ' numeric:no_panic', h, z3.Not(z3.And(*p['pc'])))
        else: P.prove(tag + ' numeric:value_class0', h + p['pc'], z3.And(p['result'].f[0] == 4 * k, z3.URem(p['result'].f[0], 4) == 0))
    # ---- named(name) for the three canonical forms, every k in u32
    def interned_obligations(name, key, hyps, r, t):
        sl = r.f[0]
        P.prove(name + ':class2', hyps, z3.URem(sl, 4) == 2)
        P.prove(name + ':map_records_name', hyps, z3.And(z3.Select(t.f[2].present, key), z3.Select(t.f[2].val, key) == sl))
        s1 = z3.Const('s1', Str)
        P.prove(name + ':injective_vs_existing', hyps, z3.Implies(z3.And(s1 != key, z3.Select(mp.present, s1)), z3.Select(mp.val, s1) != sl))
        P.prove(name + ':function_of_name', hyps, z3.Implies(z3.Select(mp.present, key), z3.And(sl == z3.Select(mp.val, key), t.f[0] == idx)))
        P.prove(name + ':counter_untouched', hyps, t.f[0] == idx)
        sq = z3.Const('sq', Str); iq = z3.BitVec('iq', 64); nm, nv = t.f[2], t.f[1]
        P.prove(name + ':inv.map_points_into_vec', hyps, z3.Implies(z3.Select(nm.present, sq), z3.And(z3.URem(z3.Select(nm.val, sq), 4) == 2,
                z3.ULT(z3.ZeroExt(32, z3.UDiv(z3.Select(nm.val, sq) - 2, 4)), nv.len), z3.Select(nv.arr, z3.ZeroExt(32, z3.UDiv(z3.Select(nm.val, sq) - 2, 4))) == sq)))
        P.prove(name + ':inv.vec_points_into_map', hyps + [z3.ULT(vec.len, (1 << 30) - 1)], z3.Implies(z3.ULT(iq, nv.len), z3.And(z3.Select(nm.present, z3.Select(nv.arr, iq)),
                z3.Select(nm.val, z3.Select(nv.arr, iq)) == 4 * z3.Extract(31, 0, iq) + 2)))
        P.prove(name + ':inv.stored_numerals_do_not_fit', hyps, z3.Implies(z3.Select(nm.present, sq), z3.And(z3.Implies(kind(sq) == 0, z3.UGE(numinv(sq), 1 << 30)), z3.Implies(kind(sq) == 1, z3.UGE(finv(sq), (1 << 30) - 1)))))
    kn = z3.BitVec('k_n', 32)
    def entry_n(ex_):
        ex_.table['tab'] = table(); r = ex_.call(named, [SV('num', kn)]); return (r, ex_.table['tab'])
    hn = inv(idx, vec, mp, issued)
    for p in ex.explore(entry_n):
        pc = p['pc']
        if p['kind'] == 'panic': P.prove('%s named_num:no_panic[%s]' % (tag, p['result']['msg'][:40]), hn, z3.Not(z3.And(*pc))); continue
        r, t = p['result']
        P.prove(tag + ' named_num:small_is_numeric', hn + pc, z3.Implies(z3.ULT(kn, 1 << 30), z3.And(r.f[0] == 4 * kn, t.f[0] == idx)))
        P.prove(tag + ' named_num:class0_only_if_value_fits', hn + pc, z3.Implies(z3.URem(r.f[0], 4) != 2, z3.And(z3.ULT(kn, 1 << 30), r.f[0] == 4 * kn)))
        big = hn + pc + [z3.UGE(kn, 1 << 30)]
        if ex.sat(pc + [z3.UGE(kn, 1 << 30), z3.URem(r.f[0], 4) == 2]):       # this path can intern a numeral (quantifier-free reachability probe)
            interned_obligations(tag + ' named_num_big', numstr(kn), big + [z3.URem(r.f[0], 4) == 2], r, t)
    kf = z3.BitVec('k_f', 32)
    def entry_f(ex_):
        ex_.table['tab'] = table(); r = ex_.call(named, [SV('fnum', kf)]); return (r, ex_.table['tab'])
    hf = inv(idx, vec, mp, issued)
    fits = z3.ULT(kf, (1 << 30) - 1)
    for p in ex.explore(entry_f):
        pc = p['pc']
        if p['kind'] == 'panic': P.prove('%s named_f:no_panic[%s]' % (tag, p['result']['msg'][:40]), hf, z3.Not(z3.And(*pc))); continue
        r, t = p['result']; sl = r.f[0]
        h1 = hf + pc + [fits]
        P.prove(tag + ' named_f:value', h1, sl == 4 * kf + 1)
        post_inv(t, z3.Store(issued, sl, True), h1, tag + ' named_f')
        P.prove(tag + ' named_f:counter_never_decreases', hf + pc, z3.UGE(t.f[0], idx))
        P.prove(tag + ' named_f:next_fresh_differs', h1, t.f[0] != sl)
        P.prove(tag + ' named_f:class1_only_if_value_fits', hf + pc, z3.Implies(z3.URem(sl, 4) != 2, z3.And(fits, sl == 4 * kf + 1)))
        big = hf + pc + [z3.Not(fits)]
        if ex.sat(pc + [z3.Not(fits), z3.URem(sl, 4) == 2]):
            interned_obligations(tag + ' named_f_big', fstr(kf), big + [z3.URem(sl, 4) == 2], r, t)
    s0 = z3.Const('s0', Str)
    def entry_t(ex_):
        ex_.table['tab'] = table(); r = ex_.call(named, [SV('text', s0)]); return (r, ex_.table['tab'])
    ht = inv(idx, vec, mp, issued) + [kind(s0) == 2]
    for p in ex.explore(entry_t):
        pc = p['pc']
        if p['kind'] == 'panic': P.prove('%s named_text:no_panic[%s]' % (tag, p['result']['msg'][:40]), ht, z3.Not(z3.And(*pc))); continue
        r, t = p['result']
        interned_obligations(tag + ' named_text', s0, ht + pc, r, t)
    # ---- named(text) where the text is a NON-canonical spelling of a numeral ("07", "+7") or of f<numeral> ("f07"): str::parse::<u32> accepts those,
    # so the name must not end up as the slot of the canonical spelling ("distinct slot names denote distinct slots")
    ka = z3.BitVec('k_a', 32)
    for form, kval, canon_, slot_of in ((0, numinv, numstr, lambda k_: 4 * k_), (1, finv, fstr, lambda k_: 4 * k_ + 1)):
        ha = inv(idx, vec, mp, issued) + [kind(s0) == form, kval(s0) == ka, s0 != canon_(ka), startsf(s0) == z3.BoolVal(form == 1), z3.ULT(ka, 1 << 29)]
        for p in ex.explore(entry_t):
            pc = p['pc']
            if p['kind'] == 'panic': P.prove('%s named_alias%d:no_panic[%s]' % (tag, form, p['result']['msg'][:40]), ha, z3.Not(z3.And(*pc))); continue
            r, t = p['result']
            P.prove('%s named_alias%d:distinct_names_distinct_slots' % (tag, form), ha + pc, r.f[0] != slot_of(ka))
    # ---- named(text) where the text starts with f but is NOT f+numeral (e.g. "ff3", "fx"): whatever the code strips from it, the name is an interned one -
    # it must not end up as the fresh-class slot of another name ($ff3 is not $f3)
    kt = z3.BitVec('k_t', 32)
    h2 = inv(idx, vec, mp, issued) + [kind(s0) == 2, startsf(s0), z3.ULT(kt, 1 << 29), z3.Implies(kind(trimf(s0)) == 0, z3.And(numinv(trimf(s0)) == kt, trimf(s0) == numstr(kt)))]
    for p in ex.explore(entry_t):
        pc = p['pc']
        if p['kind'] == 'panic': P.prove('%s named_alias2:no_panic[%s]' % (tag, p['result']['msg'][:40]), h2, z3.Not(z3.And(*pc))); continue
        r, t = p['result']
        P.prove('%s named_alias2:distinct_names_distinct_slots' % tag, h2 + pc, z3.URem(r.f[0], 4) == 2)
    # ---- display / parse round trip
    slv = z3.BitVec('slot_rt', 32)
    def entry_rt(ex_):
        ex_.table['tab'] = table()
        f = Fmt(); cell = {'s': Struct({0: slv}, 'Slot'), 'f': f}
        ex_.call(fmt, [Ref(cell, 's'), Ref(cell, 'f')])
        return ex_.call(named, [f.out]), ex_.table['tab']
    valid = z3.Or(z3.URem(slv, 4) == 0, z3.And(z3.URem(slv, 4) == 1, z3.ULT(slv, idx)), z3.And(z3.URem(slv, 4) == 2, z3.ULT(z3.ZeroExt(32, z3.UDiv(slv - 2, 4)), vec.len)))
    hr = inv(idx, vec, mp, issued) + [valid]
    for p in ex.explore(entry_rt):
        if p['kind'] == 'panic': P.prove('%s roundtrip:no_panic[%s]' % (tag, p['result']['msg'][:40]), hr, z3.Not(z3.And(*p['pc']))); continue
        r, t = p['result']
        P.prove(tag + ' roundtrip:named(display(s))==s', hr + p['pc'], r.f[0] == slv)
        P.prove(tag + ' roundtrip:table_unchanged', hr + p['pc'], t.f[0] == idx)
    return ex, S_

# ---- native replay of a violated obligation
def native_script(model, obligation=''):
    """history that drives the real thread-local table into the model's state and performs the step of the obligation.
    returns (text, ops) - ops[i] = (kind, name) of result i"""
    idx = int(model.get('idx_0', '1')); ln = int(model.get('len_0', '0'))
    if ln > 100000: return None, None
    ops = []
    for i in range(ln): ops.append(('named', 'n%d' % i))
    if idx >= 5: ops.append(('named', 'f%d' % ((idx - 5) // 4)))        # parsing f<m> moves the counter to 4m+5
    ops.append(('numeric', '0')); ops.append(('named', 'f0'))
    if 'named_num' in obligation: ops.append(('named', str(int(model.get('k_n', '0')))))
    elif 'named_f' in obligation: ops.append(('named', 'f%d' % int(model.get('k_f', '0'))))
    elif 'named_alias0' in obligation: ops.append(('named', '0%d' % int(model.get('k_a', '0')))); ops.append(('named', '%d' % int(model.get('k_a', '0'))))
    elif 'named_alias1' in obligation: ops.append(('named', 'f0%d' % int(model.get('k_a', '0')))); ops.append(('named', 'f%d' % int(model.get('k_a', '0'))))
    elif 'named_alias2' in obligation: ops.append(('named', 'ff%d' % int(model.get('k_t', '0')))); ops.append(('named', 'f%d' % int(model.get('k_t', '0'))))
    elif 'roundtrip' in obligation:
        v = int(model.get('slot_rt', '0'))
        if v % 4 == 0: ops.append(('numeric', str(v // 4)))
        elif v % 4 == 1: ops.append(('named', 'f%d' % ((v - 1) // 4)))
        else: ops.append(('named', 'n%d' % ((v - 2) // 4)))
        ops.append(('roundtrip', str(len(ops) - 1)))
    ops.append(('fresh', '')); ops.append(('fresh', ''))
    return 'case slot:replay\n' + ''.join('%s %s\n' % o for o in ops), ops

def judge_native(r, ops):
    """violation iff: panic; a fresh() result equals an earlier result; two different names denote the same slot; a round trip changes the slot"""
    if r is None: return 'no native result'
    if r.get('panic'): return 'panic: ' + r['panic']
    def name(i): return ops[i][1] if ops[i][0] == 'named' else ('#num' + ops[i][1] if ops[i][0] == 'numeric' else None)
    for i, j in r.get('equal_pairs', []):
        if ops[j][0] == 'fresh': return 'fresh() returned %s, equal to the earlier result %d (%s %s)' % (r['slots'][j], i, ops[i][0], ops[i][1])
        if ops[j][0] == 'roundtrip': continue
        if name(i) is not None and name(j) is not None:
            ni, nj = name(i), name(j)
            if ni == nj or {ni, nj} == {'#num0', '0'}: continue
            return 'different names %s and %s denote the same slot %s' % (ni, nj, r['slots'][j])
    for j, o in enumerate(ops):
        if o[0] == 'roundtrip' and [int(o[1]), j] not in r.get('equal_pairs', []): return 'round trip of %s gives %s' % (r['slots'][int(o[1])], r['slots'][j])
    return None

def native_confirms(model, obligation=''):
    txt, ops = native_script(model, obligation)
    if txt is None: return None, 'model needs more than 100000 interned names'
    out = {}; bad = False
    for prof in ('dev', 'release'):
        r = native.run_cases(txt, prof).get('slot:replay')
        v = judge_native(r, ops)
        out[prof] = v or 'no violation'
        if v: bad = True
    out['script'] = txt if len(txt) < 400 else txt[:200] + '...' + txt[-200:]
    return bad, out

def run(tier, seed=0):
    t0 = time.time()
    P = Prover(); fenc = set(); lmod = set(); paths = 0; inconclusive = []
    for ovf in (True, False):
        try:
            ex, S_ = run_variant(ovf, P)
            fenc |= {f for f in ex.inlined}; lmod |= ex.modelled
        except Unsupported as e:
            inconclusive.append('variant overflow=%s: %s' % (ovf, str(e)[:300]))
    known = common.load_known()
    violations = []; known_hits = []
    for r in P.results:
        if r['verdict'] == 'unknown': inconclusive.append('solver unknown on ' + r['obligation'])
        if r['verdict'] in ('VIOLATED', 'CANDIDATE'):
            key = re.sub(r'[^\w.:\[\]-]', '_', r['obligation'])
            km = common.known_match(known, 'C17', key)
            if km: known_hits.append((key, 'key=%s %s' % (key, km['text']))); continue
            bad, nat = native_confirms(r.get('model') or {}, r['obligation'])
            if not bad and r['verdict'] == 'CANDIDATE':
                inconclusive.append('candidate counterexample of %s (model %s of the ground-instance query; the quantified query timed out) does not reproduce natively' % (r['obligation'], r.get('model'))); continue
            if not bad:
                inconclusive.append('obligation %s violated symbolically (model %s) but the native replay shows neither a panic nor a repeated slot: %s' % (r['obligation'], r.get('model'), str(nat)[:300])); continue
            path = common.write_replay('C17', key, {'property': 'C17', 'obligation': r['obligation'], 'model': r.get('model'), 'native': nat})
            violations.append((key, path, 'obligation %s violated, model %s; native: %s' % (r['obligation'], r.get('model'), json.dumps(nat)[:300])))
    from mirsmt.tmpl import short_fn
    cov = {'states': max(len(P.results), 1), 'transitions': max(len(P.results), 1), 'traces_validated_against_impl': 0,
           'samples': P.results[:60], 'obligations': len(P.results), 'discharged': sum(1 for r in P.results if r['verdict'] == 'holds'),
           'evaluations': len(P.results), 'distinct_nontrivial': len({r['obligation'] for r in P.results}),
           'rule': 'one evaluation = one (path of a slot constructor from an arbitrary table state, obligation) query decided by z3',
           'functions_encoded': sorted(short_fn(f) for f in fenc), 'library_models': sorted(lmod), 'solver_time_s': round(P.t, 2),
           'bounds': 'numeric / f<n> names with n < 2^30; fewer than 2^30-2 fresh slots issued so far; names in the forms Num(k), F(k), other Text(s), and non-canonical spellings of numerals / f-numerals (anything else str::parse::<u32> accepts, e.g. leading zeros or +); table = SMT arrays under the quantified invariant Inv',
           'exhaustive': False}
    common.write_evidence('C17', tier, 'model_checking', cov, ['thread-locality of the table is taken from thread_local!', 'String/HashMap<String,u32>/Vec<String> modelled as an uninterpreted sort with SMT arrays'], time.time() - t0, len(violations), seed)
    return common.finish('C17', violations, known_hits, inconclusive)

def replay(path):
    p = json.load(open(path)); bad, nat = native_confirms(p.get('model') or {}, p['obligation'])
    print('C17 replay: obligation', p['obligation'], 'model', p.get('model'), '->', json.dumps(nat)[:600]); return 1 if bad else 0
