"""Shared plumbing of the checks: evidence files, known findings, verdict -> exit code."""
import os, sys, json, time, re

VERIF = os.path.dirname(os.path.dirname(os.path.abspath(__file__)))
OUT = os.environ.get('VERIF_OUT', VERIF)       # tools/seed_sweep.py redirects evidence and replays of runs on mutated copies
EVID = os.path.join(OUT, 'evidence')
REPLAYS = os.path.join(OUT, 'replays')
KNOWN = os.path.join(VERIF, 'known_findings.txt')

class Inconclusive(Exception): pass

def load_known():
    """lines: `finding: property=C08 key=<key> <free text>` suppress (print KNOWN-FINDING); `fixed: ...` lines suppress nothing"""
    out = []
    if os.path.exists(KNOWN):
        for line in open(KNOWN):
            line = line.strip()
            if line.startswith('finding:'):
                m = re.search(r'property=(\S+)\s+key=(\S+)\s*(.*)$', line)
                if m: out.append({'prop': m.group(1), 'key': m.group(2), 'text': m.group(3)})
    return out

def known_match(known, prop, key):
    for k in known:
        if k['prop'] == prop and (k['key'] == key or (k['key'].endswith('*') and key.startswith(k['key'][:-1]))): return k
    return None

def write_evidence(prop, tier, level, coverage, assumptions, wall_s, violations, seed=0):
    os.makedirs(EVID, exist_ok=True)
    ev = {'property_id': prop, 'tier': tier, 'seed': seed if isinstance(seed, int) else 0, 'level': level, 'coverage': coverage, 'assumptions': assumptions,
          'wall_s': round(wall_s, 2), 'violations': violations}
    tmp = os.path.join(EVID, prop + '.json.tmp%d' % os.getpid())
    json.dump(ev, open(tmp, 'w'), indent=1, default=str)
    os.replace(tmp, os.path.join(EVID, prop + '.json'))

def write_replay(prop, name, payload):
    os.makedirs(REPLAYS, exist_ok=True)
    p = os.path.join(REPLAYS, '%s-%s.json' % (prop, re.sub(r'[^\w.-]', '_', name)))
    json.dump(payload, open(p, 'w'), indent=1, default=str)
    return p

def finish(prop, violations, known_hits, inconclusive, notes=()):
    """violations: list of (key, replay_path, text); prints the protocol lines and returns the exit code"""
    for k, text in known_hits:
        print('KNOWN-FINDING: property=%s %s' % (prop, text))
    for msg in list(notes)[:12]: print('NOTE: property=%s %s' % (prop, msg))
    if inconclusive and not violations:
        for msg in inconclusive[:10]: print('INCONCLUSIVE: property=%s %s' % (prop, msg))
        return 2
    if violations:
        for msg in inconclusive[:12]: print('NOTE: property=%s (partly inconclusive) %s' % (prop, msg))
        for key, path, text in violations[:20]:
            print('VIOLATION property=%s replay=%s' % (prop, path))
            print('  ' + text)
        return 1
    print('OK property=%s' % prop)
    return 0
