"""C15 - saturation and stop reasons are reported truthfully.

E2 half (apply_rewrites): on the rewrite templates of the shared exploration, a call that returns false left every observable unchanged
(node count, equality relation over all handles, slot and symmetry counts, progress measure) and the oracle agrees that no rule instance
was new; a further call also returns false.
Runner-loop half: checks/runner_unit.py (Runner::run from MIR with apply_rewrites, node counts, the clock and the hooks as nondeterministic stubs).
"""
from . import tmpl_props
def run(tier, seed=0):
    extra = None
    try:
        from . import runner_unit as kani_runner
        extra = kani_runner.unit(tier)
    except ImportError: pass
    return tmpl_props.run('C15', tier, seed, extra)
def replay(path): return tmpl_props.replay('C15', path)
