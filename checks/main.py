import sys, os, traceback
sys.path.insert(0, os.path.dirname(os.path.dirname(os.path.abspath(__file__))))

TEMPLATE_PROPS = ('C07', 'C03', 'C01', 'C02', 'C04', 'C05', 'C14', 'C08', 'C09', 'C11', 'C12')   # decided on the shared template exploration alone

def main():
    args = sys.argv[1:]
    if not args: print('usage: check <id> [--tier quick|thorough] [--replay path]'); return 2
    prop = args[0]; tier = os.environ.get('VERIF_TIER', 'quick'); replay = None
    i = 1
    while i < len(args):
        if args[i] == '--tier': tier = args[i+1]; i += 2
        elif args[i] == '--replay': replay = args[i+1]; i += 2
        else: i += 1
    seed = int(os.environ.get('VERIF_SEED', '0') or 0)
    try:
        if prop in TEMPLATE_PROPS:
            from checks import tmpl_props
            if replay:
                import json
                if prop == 'C08' and json.load(open(replay)).get('level') == 'unit':
                    from checks import c13
                    return c13.replay(replay)
                return tmpl_props.replay(prop, replay)
            if prop == 'C08':
                # "canonicalising an invocation twice equals canonicalising it once", union-find entries consistent: the one-step obligations on
                # find_applied_id from arbitrary union-find states (shared with C13) belong to this property as well
                from checks import c13
                return tmpl_props.run(prop, tier, seed, c13.unit(tier, prop))
            return tmpl_props.run(prop, tier, seed)
        mod = __import__('checks.' + prop.lower(), fromlist=['run'])
        if replay: return mod.replay(replay)
        return mod.run(tier, seed)
    except Exception as e:
        traceback.print_exc()
        print('INCONCLUSIVE: property=%s %s: %s' % (prop, type(e).__name__, str(e)[:300]))
        return 2

if __name__ == '__main__':
    sys.exit(main())
