"""C19 - slot maps behave as finite maps independent of construction order.

Every public method of src/slotmap.rs from MIR on maps of concrete size with symbolic keys/values; the oracle is a reference
finite map written as nested z3 if-then-else terms; all queries are for a fresh symbolic slot q, so one query covers every key.
A violated obligation is turned into a concrete script (values renumbered order-isomorphically to numeric slots), run natively
on the real SlotMap and compared with a Python dict before it is reported.
"""
import sys, time, json, re, itertools
import z3
from . import common
from mirsmt.session import Session
from mirsmt.engine import *
from mirsmt.models import M
from mirsmt import native
from mirsmt.tmpl import short_fn

class Ctx:
    def __init__(self, S_):
        self.S = S_; self.R = S_.resolver; self.ex = S_.executor()
        self.results = []; self.paths = 0
        self.viol = []
    def M(self, name): return self.R.M('SlotMap::' + name)

def mk_map(items): return Struct({0: SVec([tup(slot(k), slot(v)) for k, v in items])}, 'SlotMap')
def content(m): return [(p.f[0].f[0], p.f[1].f[0]) for p in dd(m).f[0].items]
def sorted_c(keys): return [z3.ULT(a, b) for a, b in zip(keys, keys[1:])]

def ref_get(items, q):
    """reference finite map: (present, value) of q in an association list (later entries win)"""
    pres = z3.BoolVal(False); val = z3.BitVecVal(0, 32)
    for k, v in items:
        pres = z3.If(q == k, z3.BoolVal(True), pres); val = z3.If(q == k, v, val)
    return pres, val
def opt_claim(r, pres, val):
    """Option<Slot> result of the code equals the reference"""
    if r.disc == 1: return z3.And(pres, r.payload.f[0].f[0] == val)
    return z3.Not(pres)

def explore(C, name, entry, obligations, replay=None):
    """entry(ex) -> value; obligations(ex, value) -> list of (label, claim). Every claim must be valid under the path condition."""
    ex = C.ex; n_ob = 0; n_p = 0; t0 = time.time(); bad = []
    for p in ex.explore(entry, max_paths=20000):
        n_p += 1
        if p['kind'] == 'panic':
            bad.append((name + ':no_panic', ex_model(p['pc']), p['result']['msg'])); continue
        ex.pc = p['pc']
        for label, claim in obligations(ex, p['result']):
            n_ob += 1
            okv, m = ex.valid(claim)
            if not okv: bad.append((name + ':' + label, m, 'claim violated'))
    C.paths += n_p
    C.results.append({'obligation': name, 'paths': n_p, 'queries': n_ob, 'verdict': 'holds' if not bad else 'VIOLATED', 'time_s': round(time.time() - t0, 2)})
    for label, m, msg in bad[:3]: C.viol.append({'obligation': label, 'model': m, 'msg': msg, 'replay': replay})

def ex_model(pc):
    s = z3.Solver(); s.add(*pc); assert s.check() == z3.sat; return s.model()

# ---------------------------------------------------------------- obligations
def ob_ops(C, nops, seqs):
    """(2) differential: any sequence of insert/remove with symbolic arguments (keys may coincide), then get/contains/len/keys/values"""
    for seq in seqs:
        K = [z3.BitVec('k%d' % i, 32) for i in range(len(seq))]; V = [z3.BitVec('v%d' % i, 32) for i in range(len(seq))]; q = z3.BitVec('q', 32)
        def entry(ex, seq=seq):
            cell = {'m': ex.call(C.M('new'), [])}
            for i, op in enumerate(seq):
                if op == 'i': ex.call(C.M('insert'), [Ref(cell, 'm'), slot(K[i]), slot(V[i])])
                else: ex.call(C.M('remove'), [Ref(cell, 'm'), slot(K[i])])
            g = ex.call(C.M('get'), [Ref(cell, 'm'), slot(q)])
            ck = ex.call(C.M('contains_key'), [Ref(cell, 'm'), slot(q)])
            ln = ex.call(C.M('len'), [Ref(cell, 'm')])
            ks = ex.call(C.M('keys'), [Ref(cell, 'm')]); vs = ex.call(C.M('values'), [Ref(cell, 'm')])
            emp = ex.call(C.M('is_empty'), [Ref(cell, 'm')])
            return cell['m'], g, ck, ln, ks, vs, emp
        def obl(ex, r, seq=seq):
            m, g, ck, ln, ks, vs, emp = r
            # reference association list: insert appends, remove deletes
            pres = z3.BoolVal(False); val = z3.BitVecVal(0, 32)
            for i, op in enumerate(seq):
                if op == 'i': pres = z3.If(q == K[i], z3.BoolVal(True), pres); val = z3.If(q == K[i], V[i], val)
                else: pres = z3.If(q == K[i], z3.BoolVal(False), pres)
            c = content(m); keys = [k for k, _ in c]
            out = [('get==reference', opt_claim(g, pres, val)), ('contains_key==reference', (ck if z3.is_expr(ck) else z3.BoolVal(ck)) == pres),
                   ('keys sorted & unique', z3.And(*sorted_c(keys)) if len(keys) > 1 else z3.BoolVal(True)),
                   ('content==reference', z3.And(z3.Or(*[z3.And(q == k, v == val) for k, v in c]) if c else z3.BoolVal(False)) == pres if False else
                        (z3.Or(*[q == k for k, _ in c]) if c else z3.BoolVal(False)) == pres),
                   ('content values', z3.And(*[z3.Implies(q == k, v == val) for k, v in c]) if c else z3.BoolVal(True)),
                   ('len', ln == z3.BitVecVal(len(c), 64)), ('is_empty', (emp if z3.is_expr(emp) else z3.BoolVal(emp)) == z3.BoolVal(len(c) == 0)),
                   ('keys()', (z3.Or(*[q == x.f[0] for x in ks.items]) if ks.items else z3.BoolVal(False)) == pres),
                   ('values()', z3.And(*[z3.Or(*[x.f[0] == v for _, v in c]) for x in vs.items]) if vs.items else z3.BoolVal(True)),
                   ('values() complete', z3.And(*[z3.Or(*[x.f[0] == v for x in vs.items]) for _, v in c]) if c else z3.BoolVal(True))]
            return out
        def rp(model, seq=seq):
            vals = {str(x): model.eval(x, model_completion=True).as_long() for x in K + V + [q]}
            lines = ['new A']
            for i, op in enumerate(seq): lines.append('insert A k%d v%d' % (i, i) if op == 'i' else 'remove A k%d' % i)
            lines += ['get A q', 'contains A q', 'len A', 'dump A']
            return lines, vals
        explore(C, 'ops[%s]' % seq, entry, obl, rp)

def ob_order(C, n):
    """(1) order independence: n distinct keys inserted in two symbolic orders give == maps (derived PartialEq/Ord/Hash see only the sorted vector)"""
    K = [z3.BitVec('k%d' % i, 32) for i in range(n)]; V = [z3.BitVec('v%d' % i, 32) for i in range(n)]
    for perm in itertools.permutations(range(n)):
        if perm == tuple(range(n)): continue
        def entry(ex, perm=perm):
            ex.assume(z3.Distinct(*K)) if n > 1 else None
            a = {'m': ex.call(C.M('new'), [])}; b = {'m': ex.call(C.M('new'), [])}
            for i in range(n): ex.call(C.M('insert'), [Ref(a, 'm'), slot(K[i]), slot(V[i])])
            for i in perm: ex.call(C.M('insert'), [Ref(b, 'm'), slot(K[i]), slot(V[i])])
            e = ex.call_callee('<slotmap::SlotMap as PartialEq>::eq', [Ref(a, 'm'), Ref(b, 'm')])
            o = ex.call_callee('<slotmap::SlotMap as Ord>::cmp', [Ref(a, 'm'), Ref(b, 'm')])
            return a['m'], b['m'], e, o
        def obl(ex, r):
            a, b, e, o = r
            return [('==', e if z3.is_expr(e) else z3.BoolVal(e)), ('same vector (hash input)', val_eq(a, b)), ('cmp==Equal', z3.BoolVal(o.disc == 0))]
        def rp(model, perm=perm):
            vals = {str(x): model.eval(x, model_completion=True).as_long() for x in K + V}
            lines = ['new A', 'new B'] + ['insert A k%d v%d' % (i, i) for i in range(n)] + ['insert B k%d v%d' % (i, i) for i in perm] + ['eq A B', 'cmp A B', 'hasheq A B', 'dump A', 'dump B']
            return lines, vals
        explore(C, 'order_independence[n=%d,perm=%s]' % (n, ''.join(map(str, perm))), entry, obl, rp)

def sorted_map(ex, tag, n, bij=False):
    K = [z3.BitVec('%sk%d' % (tag, i), 32) for i in range(n)]; V = [z3.BitVec('%sv%d' % (tag, i), 32) for i in range(n)]
    for c in sorted_c(K): ex.assume(c)
    if bij and n > 1: ex.assume(z3.Distinct(*V))
    return mk_map(list(zip(K, V))), K, V

def ob_inverse(C, n):
    q = z3.BitVec('q', 32)
    def entry(ex):
        m, K, V = sorted_map(ex, 'a', n, bij=True); cell = {'m': m}
        inv = ex.call(C.M('inverse'), [Ref(cell, 'm')]); c2 = {'m': inv}
        inv2 = ex.call(C.M('inverse'), [Ref(c2, 'm')])
        bj = ex.call(C.M('is_bijection'), [Ref(cell, 'm')])
        return m, inv, inv2, bj
    def obl(ex, r):
        m, inv, inv2, bj = r; c = content(m); ci = content(inv)
        p1, v1 = ref_get(ci, q)
        return [('inverse.get(v)==k', z3.And(*[z3.Implies(q == v, z3.And(p1, v1 == k)) for k, v in c]) if c else z3.BoolVal(True)),
                ('inverse has nothing else', z3.Implies(p1, z3.Or(*[q == v for _, v in c])) if c else z3.Not(p1)),
                ('inverse sorted', z3.And(*sorted_c([k for k, _ in ci])) if len(ci) > 1 else z3.BoolVal(True)),
                ('inverse(inverse)==self', val_eq(m, inv2)), ('is_bijection', bj if z3.is_expr(bj) else z3.BoolVal(bj))]
    def rp(model):
        names = ['ak%d' % i for i in range(n)] + ['av%d' % i for i in range(n)]
        vals = {x: model.eval(z3.BitVec(x, 32), model_completion=True).as_long() for x in names}
        return ['pairs A ' + ' '.join('ak%d av%d' % (i, i) for i in range(n)), 'inverse A B', 'inverse B C', 'dump B', 'eq A C', 'is_bijection A'], vals
    explore(C, 'inverse[n=%d]' % n, entry, obl, rp)

def ob_is_bijection(C, n):
    def entry(ex):
        m, K, V = sorted_map(ex, 'a', n); cell = {'m': m}
        bj = ex.call(C.M('is_bijection'), [Ref(cell, 'm')]); pm = ex.call(C.M('is_perm'), [Ref(cell, 'm')])
        return K, V, bj, pm
    def obl(ex, r):
        K, V, bj, pm = r
        inj = z3.Distinct(*V) if n > 1 else z3.BoolVal(True)
        perm = z3.And(inj, *[z3.Or(*[v == k for k in K]) for v in V]) if n else z3.BoolVal(True)
        return [('is_bijection', (bj if z3.is_expr(bj) else z3.BoolVal(bj)) == inj), ('is_perm', (pm if z3.is_expr(pm) else z3.BoolVal(pm)) == perm)]
    def rp(model):
        names = ['ak%d' % i for i in range(n)] + ['av%d' % i for i in range(n)]
        vals = {x: model.eval(z3.BitVec(x, 32), model_completion=True).as_long() for x in names}
        return ['pairs A ' + ' '.join('ak%d av%d' % (i, i) for i in range(n)), 'is_bijection A', 'is_perm A'], vals
    explore(C, 'is_bijection/is_perm[n=%d]' % n, entry, obl, rp)

def ob_compose(C, na, nb, which):
    q = z3.BitVec('q', 32)
    def entry(ex):
        a, KA, VA = sorted_map(ex, 'a', na); b, KB, VB = sorted_map(ex, 'b', nb)
        ca, cb = {'m': a}, {'m': b}
        if which == 'compose_fresh':
            ex.table['tab'] = Struct({0: z3.BitVec('F0', 32), 1: Opaque('v'), 2: Opaque('m')}, 'SlotTable')
            ex.assume(z3.URem(z3.BitVec('F0', 32), 4) == 1); ex.assume(z3.ULT(z3.BitVec('F0', 32), 1 << 31))
        r = ex.call(C.M(which), [Ref(ca, 'm'), Ref(cb, 'm')])
        return a, b, r
    def obl(ex, r):
        a, b, res = r; ca, cb, cr = content(a), content(b), content(res)
        pa, va = ref_get(ca, q); pb, vb = ref_get(cb, va); pr, vr = ref_get(cr, q)
        out = [('sorted', z3.And(*sorted_c([k for k, _ in cr])) if len(cr) > 1 else z3.BoolVal(True))]
        if which in ('compose', 'compose_partial'):
            out += [('pointwise present', pr == z3.And(pa, pb)), ('pointwise value', z3.Implies(pr, vr == vb))]
        else:
            F0 = z3.BitVec('F0', 32)
            out += [('keys kept', pr == pa), ('mapped where possible', z3.Implies(z3.And(pa, pb), vr == vb)),
                    ('fresh where missing', z3.Implies(z3.And(pa, z3.Not(pb)), z3.And(z3.URem(vr, 4) == 1, z3.UGE(vr, F0))))]
        return out
    def rp(model):
        names = ['ak%d' % i for i in range(na)] + ['av%d' % i for i in range(na)] + ['bk%d' % i for i in range(nb)] + ['bv%d' % i for i in range(nb)] + ['q']
        vals = {x: model.eval(z3.BitVec(x, 32), model_completion=True).as_long() for x in names}
        return ['pairs A ' + ' '.join('ak%d av%d' % (i, i) for i in range(na)), 'pairs B ' + ' '.join('bk%d bv%d' % (i, i) for i in range(nb)), which + ' A B C', 'dump C', 'get C q'], vals
    explore(C, '%s[%dx%d]' % (which, na, nb), entry, obl, rp)

def ob_assoc(C, n):
    """(a.b).c == a.(b.c) for compose_partial; b.compose(b.inverse()) == identity(keys b)"""
    def entry(ex):
        a, _, _ = sorted_map(ex, 'a', n); b, _, _ = sorted_map(ex, 'b', n); c, _, _ = sorted_map(ex, 'c', n)
        A, Bm, Cm = {'m': a}, {'m': b}, {'m': c}
        ab = {'m': ex.call(C.M('compose_partial'), [Ref(A, 'm'), Ref(Bm, 'm')])}
        bc = {'m': ex.call(C.M('compose_partial'), [Ref(Bm, 'm'), Ref(Cm, 'm')])}
        l = ex.call(C.M('compose_partial'), [Ref(ab, 'm'), Ref(Cm, 'm')]); r = ex.call(C.M('compose_partial'), [Ref(A, 'm'), Ref(bc, 'm')])
        return l, r
    explore(C, 'associativity[n=%d]' % n, entry, lambda ex, r: [('(a.b).c==a.(b.c)', val_eq(r[0], r[1]))])
    def entry2(ex):
        b, K, V = sorted_map(ex, 'b', n, bij=True); Bm = {'m': b}
        inv = {'m': ex.call(C.M('inverse'), [Ref(Bm, 'm')])}
        r = ex.call(C.M('compose'), [Ref(Bm, 'm'), Ref(inv, 'm')])
        return K, r
    explore(C, 'b.compose(b.inverse())==identity[n=%d]' % n, entry2, lambda ex, r: [('identity on keys', val_eq(r[1], mk_map([(k, k) for k in r[0]])))])

def ob_union(C, na, nb):
    q = z3.BitVec('q', 32)
    def entry(ex):
        a, KA, VA = sorted_map(ex, 'a', na); b, KB, VB = sorted_map(ex, 'b', nb)
        ca, cb = {'m': a}, {'m': b}
        tu = ex.call(C.M('try_union'), [Ref(ca, 'm'), Ref(cb, 'm')])
        return a, b, tu
    def obl(ex, r):
        a, b, tu = r; ca, cb = content(a), content(b)
        pa, va = ref_get(ca, q); pb, vb = ref_get(cb, q)
        conflict = z3.Or(*[z3.And(k1 == k2, v1 != v2) for k1, v1 in ca for k2, v2 in cb]) if ca and cb else z3.BoolVal(False)
        if tu.disc == 0: return [('None iff a key conflicts', conflict)]
        cr = content(tu.payload.f[0]); pr, vr = ref_get(cr, q)
        return [('Some iff no conflict', z3.Not(conflict)), ('sorted', z3.And(*sorted_c([k for k, _ in cr])) if len(cr) > 1 else z3.BoolVal(True)),
                ('pointwise present', pr == z3.Or(pa, pb)), ('pointwise value', z3.And(z3.Implies(pb, vr == vb), z3.Implies(z3.And(pa, z3.Not(pb)), vr == va)))]
    def rp(model):
        names = ['ak%d' % i for i in range(na)] + ['av%d' % i for i in range(na)] + ['bk%d' % i for i in range(nb)] + ['bv%d' % i for i in range(nb)] + ['q']
        vals = {x: model.eval(z3.BitVec(x, 32), model_completion=True).as_long() for x in names}
        return ['pairs A ' + ' '.join('ak%d av%d' % (i, i) for i in range(na)), 'pairs B ' + ' '.join('bk%d bv%d' % (i, i) for i in range(nb)), 'try_union A B C', 'dump C', 'get C q'], vals
    explore(C, 'try_union[%dx%d]' % (na, nb), entry, obl, rp)
    def entry_u(ex):
        a, KA, VA = sorted_map(ex, 'a', na); b, KB, VB = sorted_map(ex, 'b', nb)
        ca, cb = {'m': a}, {'m': b}
        # union: precondition = the maps agree on common keys (it panics/asserts only under CHECKS otherwise)
        for (k1, v1) in content(a):
            for (k2, v2) in content(b): ex.assume(z3.Implies(k1 == k2, v1 == v2))
        return a, b, ex.call(C.M('union'), [Ref(ca, 'm'), Ref(cb, 'm')])
    def obl_u(ex, r):
        a, b, u = r; pa, va = ref_get(content(a), q); pb, vb = ref_get(content(b), q); cr = content(u); pr, vr = ref_get(cr, q)
        return [('sorted', z3.And(*sorted_c([k for k, _ in cr])) if len(cr) > 1 else z3.BoolVal(True)), ('present', pr == z3.Or(pa, pb)),
                ('value', z3.And(z3.Implies(pb, vr == vb), z3.Implies(z3.And(pa, z3.Not(pb)), vr == va)))]
    def rp_u(model):
        names = ['ak%d' % i for i in range(na)] + ['av%d' % i for i in range(na)] + ['bk%d' % i for i in range(nb)] + ['bv%d' % i for i in range(nb)] + ['q']
        vals = {x: model.eval(z3.BitVec(x, 32), model_completion=True).as_long() for x in names}
        return ['pairs A ' + ' '.join('ak%d av%d' % (i, i) for i in range(na)), 'pairs B ' + ' '.join('bk%d bv%d' % (i, i) for i in range(nb)), 'union A B C', 'dump C', 'get C q'], vals
    explore(C, 'union[%dx%d]' % (na, nb), entry_u, obl_u, rp_u)

def ob_ctor(C, n):
    q = z3.BitVec('q', 32)
    K = [z3.BitVec('k%d' % i, 32) for i in range(n)]; V = [z3.BitVec('v%d' % i, 32) for i in range(n)]
    def entry(ex):
        ex.assume(z3.Distinct(*K)) if n > 1 else None
        pairs = [tup(slot(K[i]), slot(V[i])) for i in range(n)]
        fp = ex.call(C.M('from_pairs'), [SliceRef(pairs, 0, n)])
        ident = ex.call(C.M('identity'), [VS_sorted(ex, K)])
        cell = {'m': fp}
        idx = None; _d0 = ex.depth()
        try: idx = ('ok', dd(ex.call_callee('<slotmap::SlotMap as Index<slot::Slot>>::index', [Ref(cell, 'm'), slot(q)])).f[0])
        except Panic as p: idx = ('panic', p.msg); ex.unwind_to(_d0)
        return fp, ident, idx
    def obl(ex, r):
        fp, ident, idx = r; pres, val = ref_get(list(zip(K, V)), q); c = content(fp); pr, vr = ref_get(c, q)
        pi, vi = ref_get(content(ident), q)
        return [('from_pairs sorted', z3.And(*sorted_c([k for k, _ in c])) if len(c) > 1 else z3.BoolVal(True)), ('from_pairs content', z3.And(pr == pres, z3.Implies(pres, vr == val))),
                ('identity', z3.And(pi == z3.Or(*[q == k for k in K]) if K else z3.Not(pi), z3.Implies(pi, vi == q))),
                ('index panics iff key missing', (z3.BoolVal(idx[0] == 'panic') == z3.Not(pres))), ('index value', z3.Implies(pres, idx[1] == val) if idx[0] == 'ok' else z3.BoolVal(True))]
    def rp(model):
        vals = {str(x): model.eval(x, model_completion=True).as_long() for x in K + V + [q]}
        return ['frompairs A ' + ' '.join('k%d v%d' % (i, i) for i in range(n)), 'dump A', 'get A q', 'identity I ' + ' '.join('k%d' % i for i in range(n)), 'dump I'], vals
    explore(C, 'from_pairs/identity/index[n=%d]' % n, entry, obl, rp)

def VS_sorted(ex, K):
    from mirsmt.models import vs_from
    cell = {'s': vs_from(ex, [slot(k) for k in K])}
    return Ref(cell, 's')

def ob_large(C, n):
    """maps beyond the inline capacity of ten (the SmallVec model is a plain sequence here): get/insert/remove of one symbolic key"""
    q = z3.BitVec('q', 32); w = z3.BitVec('w', 32)
    def entry(ex):
        ex.smallvec_unbounded = True
        m, K, V = sorted_map(ex, 'a', n); cell = {'m': m}
        g = ex.call(C.M('get'), [Ref(cell, 'm'), slot(q)])
        c2 = {'m': cp(m)}; ex.call(C.M('insert'), [Ref(c2, 'm'), slot(q), slot(w)])
        c3 = {'m': cp(m)}; ex.call(C.M('remove'), [Ref(c3, 'm'), slot(q)])
        return m, g, c2['m'], c3['m']
    def obl(ex, r):
        m, g, mi, mr = r; c = content(m); pres, val = ref_get(c, q); x = z3.BitVec('x', 32)
        pi, vi = ref_get(content(mi), x); pr, vr = ref_get(content(mr), x); px, vx = ref_get(c, x)
        return [('get==reference', opt_claim(g, pres, val)),
                ('insert sorted', z3.And(*sorted_c([k for k, _ in content(mi)]))), ('insert content', z3.And(pi == z3.Or(px, x == q), z3.Implies(pi, vi == z3.If(x == q, w, vx)))),
                ('remove sorted', z3.And(*sorted_c([k for k, _ in content(mr)])) if len(content(mr)) > 1 else z3.BoolVal(True)), ('remove content', z3.And(pr == z3.And(px, x != q), z3.Implies(pr, vr == vx)))]
    def rp(model):
        names = ['ak%d' % i for i in range(n)] + ['av%d' % i for i in range(n)] + ['q', 'w']
        vals = {x: model.eval(z3.BitVec(x, 32), model_completion=True).as_long() for x in names}
        return ['pairs A ' + ' '.join('ak%d av%d' % (i, i) for i in range(n)), 'get A q', 'insert A q w', 'dump A', 'remove A q', 'dump A'], vals
    explore(C, 'large_map[n=%d]' % n, entry, obl, rp)

# ---------------------------------------------------------------- native replay with a Python dict as oracle
def renumber(vals):
    """order-isomorphic renumbering of the model's u32 values to numeric slots (4 * rank): SlotMap only compares slots"""
    order = sorted(set(vals.values())); return {k: 4 * (order.index(v) + 1) for k, v in vals.items()}

def py_reference(lines):
    maps = {}; out = []
    for ln in lines:
        t = ln.split()
        try:
            if t[0] == 'new': maps[t[1]] = {}; out.append('ok')
            elif t[0] in ('pairs', 'frompairs'):
                m = {}
                for i in range(2, len(t) - 1, 2): m[int(t[i])] = int(t[i + 1])
                maps[t[1]] = m; out.append('ok')
            elif t[0] == 'insert': maps[t[1]][int(t[2])] = int(t[3]); out.append('ok')
            elif t[0] == 'remove': maps[t[1]].pop(int(t[2]), None); out.append('ok')
            elif t[0] == 'get': out.append('some %d' % maps[t[1]][int(t[2])] if int(t[2]) in maps[t[1]] else 'none')
            elif t[0] == 'contains': out.append(str(int(t[2]) in maps[t[1]]).lower())
            elif t[0] == 'len': out.append(str(len(maps[t[1]])))
            elif t[0] == 'dump': out.append(','.join('%d>%d' % kv for kv in sorted(maps[t[1]].items())))
            elif t[0] == 'inverse': maps[t[2]] = {v: k for k, v in sorted(maps[t[1]].items())}; out.append('ok')
            elif t[0] in ('compose', 'compose_partial'): maps[t[3]] = {k: maps[t[2]][v] for k, v in maps[t[1]].items() if v in maps[t[2]]}; out.append('ok')
            elif t[0] == 'compose_fresh': maps[t[3]] = {k: maps[t[2]].get(v, None) for k, v in maps[t[1]].items()}; out.append('ok')
            elif t[0] == 'union': maps[t[3]] = dict(maps[t[1]]); maps[t[3]].update(maps[t[2]]); out.append('ok')
            elif t[0] == 'try_union':
                a, b = maps[t[1]], maps[t[2]]
                if any(k in a and a[k] != v for k, v in b.items()): out.append('none')
                else: maps[t[3]] = {**a, **b}; out.append('some')
            elif t[0] == 'identity': maps[t[1]] = {int(x): int(x) for x in t[2:]}; out.append('ok')
            elif t[0] == 'eq': out.append(str(maps[t[1]] == maps[t[2]]).lower())
            elif t[0] == 'cmp': out.append('Equal' if maps[t[1]] == maps[t[2]] else '?')
            elif t[0] == 'hasheq': out.append('true' if maps[t[1]] == maps[t[2]] else '?')
            elif t[0] == 'is_bijection': out.append(str(len(set(maps[t[1]].values())) == len(maps[t[1]])).lower())
            elif t[0] == 'is_perm': out.append(str(len(set(maps[t[1]].values())) == len(maps[t[1]]) and set(maps[t[1]].values()) == set(maps[t[1]].keys())).lower())
            else: out.append('?')
        except KeyError: out.append('?')
    return out

def native_confirms(v):
    if not v.get('replay'): return None, 'no replay script for this obligation'
    lines, vals = v['replay'](v['model'])
    vals = renumber(vals)
    def sub(ln): return ' '.join(str(vals[t]) if t in vals else t for t in ln.split())
    conc_lines = [sub(l) for l in lines]
    r = native.run_cases('case slotmap:r\n' + '\n'.join(conc_lines) + '\n').get('slotmap:r')
    if r is None: return None, 'no native result'
    want = py_reference(conc_lines); got = r['results']
    diffs = [(l, w, g) for l, w, g in zip(conc_lines, want, got) if w != '?' and not (l.startswith('dump') and 'None' in w) and w != g and not (l.startswith('compose_fresh'))]
    return bool(diffs), {'script': conc_lines, 'native': got, 'reference': want, 'differences': diffs[:4]}

def run(tier, seed=0):
    t0 = time.time()
    S_ = Session((), True); C = Ctx(S_)
    inconclusive = []
    quick = tier == 'quick'
    plan = []
    seqs2 = [''.join(s) for n in (1, 2, 3) for s in itertools.product('ir', repeat=n)]
    if not quick: seqs2 += [''.join(s) for s in itertools.product('ir', repeat=4) if s.count('i') >= 2]
    plan.append(lambda: ob_ops(C, 3, seqs2))
    for n in ((2, 3) if quick else (2, 3, 4)): plan.append(lambda n=n: ob_order(C, n))
    for n in ((1, 2, 3) if quick else (1, 2, 3, 4)): plan.append(lambda n=n: ob_inverse(C, n)); plan.append(lambda n=n: ob_is_bijection(C, n))
    for w in ('compose_partial', 'compose', 'compose_fresh'):
        for na, nb in (((1, 1), (2, 2), (2, 3)) if quick else ((1, 1), (2, 2), (2, 3), (3, 3), (3, 4))): plan.append(lambda w=w, na=na, nb=nb: ob_compose(C, na, nb, w))
    plan.append(lambda: ob_assoc(C, 2))
    if not quick: plan.append(lambda: ob_assoc(C, 3))
    for na, nb in (((1, 1), (2, 2), (2, 3)) if quick else ((1, 1), (2, 2), (2, 3), (3, 3))): plan.append(lambda na=na, nb=nb: ob_union(C, na, nb))
    for n in ((0, 1, 2, 3) if quick else (0, 1, 2, 3, 4)): plan.append(lambda n=n: ob_ctor(C, n))
    for n in ((11, 16, 17) if quick else (11, 16, 17, 20, 32, 40)): plan.append(lambda n=n: ob_large(C, n))
    for job in plan:
        try: job()
        except (Unsupported, Budget) as e: inconclusive.append(str(e)[:300])
    known = common.load_known(); violations = {}; known_hits = {}; validated = 0
    for v in C.viol:
        key = re.sub(r'[^\w.\[\]=,:-]', '_', v['obligation'])
        if key in violations or key in known_hits: continue
        bad, nat = native_confirms(v)
        if not bad:
            inconclusive.append('obligation %s violated symbolically but not reproduced natively: %s' % (v['obligation'], json.dumps(nat, default=str)[:300])); continue
        validated += 1
        km = common.known_match(known, 'C19', key)
        if km: known_hits[key] = 'key=%s %s' % (key, km['text']); continue
        path = common.write_replay('C19', key, {'property': 'C19', 'obligation': v['obligation'], 'native': nat})
        violations[key] = (key, path, 'obligation %s violated; native run differs from a finite map: %s' % (v['obligation'], json.dumps(nat['differences'])[:300]))
    ex = C.ex
    cov = {'states': max(C.paths, 1), 'transitions': max(ex.n_branches, 1), 'traces_validated_against_impl': validated, 'samples': C.results[:80],
           'evaluations': sum(r['queries'] for r in C.results), 'distinct_nontrivial': len(C.results), 'rule': 'evaluation = one validity query of an obligation on one path; distinct = obligation instances (method, sizes)',
           'obligations': len(C.results), 'discharged': sum(1 for r in C.results if r['verdict'] == 'holds'),
           'functions_encoded': sorted(short_fn(f) for f in ex.inlined), 'library_models': sorted(ex.modelled), 'solver_time_s': round(ex.t_solver, 2),
           'bounds': 'maps of <= %d entries (two/three interacting maps: see obligation names), operation sequences <= %d, all u32 slot values; large maps of 11-40 entries built directly in sorted form with one symbolic operation; SmallVec modelled as a sequence; capacity()/spilled() follow smallvec 1.x growth for a vector filled by successive insertions (10 inline, then 16, 32, 64)' % (3 if quick else 4, 3 if quick else 4),
           'exhaustive': False}
    common.write_evidence('C19', tier, 'model_checking', cov, ['SmallVec as a sequence; binary_search_by_key as the core-library algorithm (size/base halving) over solver-decided comparisons', 'derived PartialEq/Ord/Hash read only the sorted vector (structural model)'], time.time() - t0, len(violations), seed)
    return common.finish('C19', list(violations.values()), list(known_hits.items()), inconclusive)

def replay(path):
    p = json.load(open(path)); print('C19 replay:', json.dumps(p['native'])[:1000]); return 1
