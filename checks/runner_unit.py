"""C15, Runner half: Runner::run / run_one / check_limits / RunnerLimits::check_limits and run_eqsat from MIR with the ENVIRONMENT
replaced by nondeterministic stubs: apply_rewrites returns an arbitrary bool per call, EGraph::total_number_of_nodes an arbitrary
count per call, Instant::now / elapsed arbitrary non-decreasing instants, every hook an arbitrary Result.  All limits are symbolic.
Each stub logs what it returned; the report is checked against the log:
  iterations = number of apply_rewrites calls <= iter_limit + 2; Saturated => the last apply_rewrites returned false, no hook failed and
  no limit was exceeded in that iteration; IterationLimit / NodeLimit / TimeLimit => that limit really was exceeded by the value the check
  saw; Other(e) => a hook returned Err(e) in the last iteration; egraph_nodes = the count the e-graph reported for the report.
"""
import time, json, re
import z3
from . import common
from mirsmt.session import Session
from mirsmt.engine import *
from mirsmt.models import M, It, PyFn, call_fn, B
from mirsmt.tmpl import short_fn

class Env:
    def __init__(self): self.log = []; self.n = 0; self.version = z3.BitVecVal(0, 64)
    def fresh(self, kind, sort):
        self.n += 1
        v = z3.Bool('%s_%d' % (kind, self.n)) if sort == 'bool' else z3.BitVec('%s_%d' % (kind, self.n), 64)
        self.log.append((kind, v))
        # the e-graph as the loop sees it: an abstract version that moves whenever rewriting reports progress or a hook says it changed the e-graph
        if kind == 'progress' or kind.startswith('hookmut'): self.version = z3.If(v, self.version + 1, self.version)
        return v

def envof(ex): return getattr(ex, 'runner_env', None)

@M.add(r'^(rewrite::)?apply_rewrites::<', front=True, first=True)
def st_apply_rewrites(ex, c, args, m):
    e = envof(ex)
    return e.fresh('progress', 'bool') if e else NotImplemented
@M.add(r'^(egraph::)?EGraph::<.*>::progress$|^rewrite::<impl (egraph::)?EGraph<L, N>>::progress$', front=True, first=True)
def st_progress(ex, c, args, m):
    e = envof(ex)
    if not e: return NotImplemented
    PF = ex.session._fields['ProgressMeasure'] if hasattr(ex.session, '_fields') and 'ProgressMeasure' in ex.session._fields else ['a', 'b', 'c', 'd']
    e.log.append(('measure', e.version))
    return Struct({i: (e.version if i == 0 else z3.BitVecVal(0, 64)) for i in range(len(PF))}, 'ProgressMeasure')
@M.add(r'^(egraph::)?EGraph::<.*>::total_number_of_nodes$', front=True, first=True)
def st_nodes(ex, c, args, m):
    e = envof(ex)
    return e.fresh('nodes', 'u64') if e else NotImplemented
@M.add(r'^(std::time::)?Instant::now$', front=True, first=True)
def st_now(ex, c, args, m):
    e = envof(ex)
    if not e: return NotImplemented
    return Struct({0: e.fresh('now', 'u64')}, 'Instant')
@M.add(r'^(std::time::)?Instant::elapsed$', front=True, first=True)
def st_elapsed(ex, c, args, m):
    e = envof(ex)
    if not e: return NotImplemented
    return Struct({0: e.fresh('elapsed', 'u64')}, 'Duration')
@M.add(r'^(std::time::)?Instant::duration_since$', front=True, first=True)
def st_since(ex, c, args, m):
    e = envof(ex)
    if not e: return NotImplemented
    return Struct({0: e.fresh('total', 'u64')}, 'Duration')
@M.add(r'^<(std::time::)?Duration as PartialOrd>::(gt|ge|lt|le)$', front=True, first=True)
def st_dur_cmp(ex, c, args, m):
    a, b = dd(args[0]), dd(args[1])
    if not (isinstance(a, Struct) and a.tag == 'Duration'): return NotImplemented
    return {'gt': z3.UGT, 'ge': z3.UGE, 'lt': z3.ULT, 'le': z3.ULE}[m.group(2)](a.f[0], b.f[0])
@M.add(r'^(std::time::)?Duration::(as_secs_f64|as_secs)$', front=True, first=True)
def st_dur_secs(ex, c, args, m):
    a = dd(args[0])
    if not (isinstance(a, Struct) and a.tag == 'Duration'): return NotImplemented
    return Opaque('f64') if m.group(2) == 'as_secs_f64' else a.f[0]
@M.add(r'^(std::time::)?Duration::from_secs$', front=True, first=True)
def st_dur_from(ex, c, args, m): return Struct({0: args[0]}, 'Duration')
@M.add(r'^(std::option::)?Option::<.*>::get_or_insert_with::<', front=True)
def st_get_or_insert_with(ex, c, args, m):
    r = args[0]
    if r.c[r.k].disc == 0: r.c[r.k] = some(call_fn(ex, args[1], []))
    return Ref(r.c[r.k].payload.f, 0)
@M.add(r' as Iterator>::try_for_each::<', front=True)
def st_try_for_each(ex, c, args, m):
    for x in (dd(args[0]) if isinstance(args[0], Ref) else args[0]):
        r = call_fn(ex, args[1], [x])
        if r.disc == 1: return r
    return ok(Unit())
@M.add(r'^(std::result::)?Result::<.*>::and_then::<', front=True)
def st_and_then(ex, c, args, m):
    r = args[0]
    if r.disc == 1: return r
    return call_fn(ex, args[1], [r.payload.f[0]])
@M.add(r'^<(usize|u64) as TryInto<(u64|usize)>>::try_into$', front=True)
def st_try_into(ex, c, args, m): return ok(args[0])

def native_hook_replay(kind, label):
    """the hook obligation has a native scenario (natdiff `runner` case: a hook inserts a term that a rule matches in the first round without progress);
    other runner-loop obligations speak about stubbed environment answers and are not replayed (None)"""
    if 'no hook changed the e-graph' not in label: return None
    from mirsmt import native
    out = []
    for r in (1, 2):
        res = native.run_cases('case runner:x %s %d\n\n' % (kind, r)).get('runner:x')
        out.append(res['result'] if res else 'no native result')
        if res and 'stop=Saturated' in res['result'] and 'rules_change_again=true' in res['result']: return True, '%s, hook changes the e-graph in round %d: %s' % (kind, r, res['result'])
    return False, '; '.join(out)

def unit(tier):
    t0 = time.time()
    S_ = Session((), True); R = S_.resolver; R.tymap.clear(); R.tymap.update({'L': 'Lf', 'N': '()', 'IterData': '()'})
    ex = S_.executor()
    E = S_.enums
    samples = []; violations = []; inconclusive = []; paths = 0
    maxit = 2 if tier == 'quick' else 3
    run_fn = R.M('Runner::run')
    nfields = len(S_._fields['Runner']) if hasattr(S_, '_fields') else None
    S_.field_index('Runner', 'egraph')
    S_.field_index('EGraph', 'classes'); F = S_._fields['Runner']; LF = S_._fields['RunnerLimits']
    for nhooks in (0, 1, 2):
        iter_limit = z3.BitVec('iter_limit', 64); node_limit = z3.BitVec('node_limit', 64); time_limit = z3.BitVec('time_limit', 64)
        def entry(ex_, nhooks=nhooks):
            env = Env(); ex_.runner_env = env
            ex_.assume(z3.ULE(iter_limit, maxit))
            hooks = []
            for h in range(nhooks):
                def hook(ex__, runner, h=h):
                    env.fresh('hookmut%d' % h, 'bool')       # hooks get the runner mutably: this call may have changed the e-graph observably
                    ok_ = env.fresh('hook%d' % h, 'bool')
                    if ex__.decide(ok_): return ok(Unit())
                    return err(PyStr('hook%d failed' % h))
                hooks.append(boxed(PyFn(hook)))
            limits = Struct({LF.index('iter_limit'): iter_limit, LF.index('node_limit'): node_limit, LF.index('start_time'): none(), LF.index('time_limit'): Struct({0: time_limit}, 'Duration')}, 'RunnerLimits')
            egf = S_._fields['EGraph']; egv = Struct({j: Opaque('egraph.' + n_) for j, n_ in enumerate(egf)}, 'EGraph'); egv.f[egf.index('classes')] = HM()
            runner = Struct({F.index('egraph'): egv, F.index('iterations'): VecVal([]), F.index('roots'): VecVal([]), F.index('stop_reason'): none(),
                             F.index('limits'): limits, F.index('hooks'): VecVal(hooks)}, 'Runner')
            cell = {'r': runner}
            rep = ex_.call(run_fn, [Ref(cell, 'r'), SliceRef([], 0, 0)])
            return rep, env.log, runner
        n_p = 0; bad = []
        try:
            for p in ex.explore(entry, max_paths=20000):
                n_p += 1
                if p['kind'] == 'panic': bad.append(('panic: ' + p['result']['msg'][:80], p['pc'])); continue
                rep, log, runner = p['result']; ex.pc = p['pc']
                RF = S_._fields['Report']
                iters = conc(rep.f[RF.index('iterations')]); sr = rep.f[RF.index('stop_reason')]; nodes = rep.f[RF.index('egraph_nodes')]
                prog = [v for k, v in log if k == 'progress']
                claims = [('iterations == number of apply_rewrites calls', z3.BoolVal(iters == len(prog))),
                          ('iterations <= iter_limit + 2', z3.ULE(z3.BitVecVal(iters, 64), iter_limit + 2)),
                          ('stop_reason recorded in the runner', z3.BoolVal(runner.f[F.index('stop_reason')].disc == 1))]
                # the events of the last iteration
                last = []; seen = 0
                for k, v in log:
                    if k == 'progress': seen += 1; last = []
                    last.append((k, v))
                nodes_seen = [v for k, v in last if k == 'nodes']; elapsed_seen = [v for k, v in last if k == 'elapsed']
                hooks_last = [(k, v) for k, v in last if k.startswith('hook') and not k.startswith('hookmut')]
                hookmut_last = [v for k, v in last if k.startswith('hookmut')]
                reason = {v: k.split('::')[1] for k, v in E.items() if k.startswith('StopReason::')}[sr.disc]
                all_hooks_ok = z3.And(*[v for _, v in hooks_last]) if hooks_last else z3.BoolVal(True)
                if reason == 'Saturated':
                    claims.append(('Saturated => the last apply_rewrites returned false', z3.Not(prog[-1])))
                    claims.append(('Saturated => no hook failed in that iteration', all_hooks_ok))
                    # "applying every rule once more changes nothing": the rules have not seen what a hook changed after the last apply_rewrites call
                    claims.append(('Saturated => no hook changed the e-graph after the last apply_rewrites', z3.Not(z3.Or(*hookmut_last)) if hookmut_last else z3.BoolVal(True)))
                    claims.append(('Saturated => no limit exceeded in that iteration', z3.And(z3.ULE(z3.BitVecVal(iters - 1, 64), iter_limit), z3.ULE(nodes_seen[0], node_limit) if nodes_seen else z3.BoolVal(True), z3.ULE(elapsed_seen[0], time_limit) if elapsed_seen else z3.BoolVal(True))))
                elif reason == 'IterationLimit': claims.append(('IterationLimit => iterations run exceed the limit', z3.UGT(z3.BitVecVal(iters - 1, 64), iter_limit)))
                elif reason == 'NodeLimit': claims.append(('NodeLimit => the node count seen by the check exceeds the limit', z3.UGT(nodes_seen[0], node_limit) if nodes_seen else z3.BoolVal(False)))
                elif reason == 'TimeLimit': claims.append(('TimeLimit => the elapsed time seen exceeds the limit', z3.UGT(elapsed_seen[0], time_limit) if elapsed_seen else z3.BoolVal(False)))
                elif reason == 'Other': claims.append(('Other => a hook failed in the last iteration', z3.Not(all_hooks_ok)))
                claims.append(('egraph_nodes == the count the e-graph reported last', nodes == [v for k, v in log if k == 'nodes'][-1]))
                # hooks get the runner mutably and may insert nodes: the count of the report has to be read after the last hook call
                li = [i for i, (k, v) in enumerate(log) if k == 'nodes']; hi = [i for i, (k, v) in enumerate(log) if k.startswith('hook') and not k.startswith('hookmut')]
                if hi: claims.append(('the node count of the report is read after the last hook call', z3.BoolVal(bool(li) and li[-1] > hi[-1])))
                for label, c in claims:
                    okv, m = ex.valid(c)
                    if not okv: bad.append((label + ' [stop reason %s after %d iterations]' % (reason, iters), p['pc'] + [z3.Not(c)]))
        except (Unsupported, Budget) as e:
            inconclusive.append('Runner::run with %d hooks: %s' % (nhooks, str(e)[:300]))
        paths += n_p
        samples.append({'obligation': 'Runner::run, %d hook(s), iter_limit <= %d symbolic, node/time limits and all environment answers symbolic' % (nhooks, maxit), 'paths': n_p, 'verdict': 'holds' if not bad else 'VIOLATED'})
        seen_lab = set()
        for label, pc in bad:
            if label.split('[')[0] in seen_lab or len(seen_lab) >= 3: continue
            seen_lab.add(label.split('[')[0])
            s = z3.Solver(); s.add(*pc); s.check(); m = s.model()
            key = 'runner:%s' % re.sub(r'[^\w]', '_', label.split('[')[0])[:50]
            nat = native_hook_replay('run', label)
            if nat is not None and not nat[0]: inconclusive.append('runner-loop finding "%s" does not reproduce natively: %s' % (label, nat[1])); continue
            path = common.write_replay('C15', key, {'property': 'C15', 'level': 'runner-loop', 'obligation': label, 'environment': {str(d): str(m[d]) for d in m.decls()}, 'native': nat and nat[1]})
            violations.append((key, path, 'Runner::run: %s; environment %s%s' % (label, {str(d): str(m[d]) for d in m.decls()}, '; native: ' + nat[1] if nat else '')))
    # ---- run_eqsat (the older loop)
    eqsat = R.M('run_eqsat')
    il = z3.BitVec('iter_limit', 64); tl = z3.BitVec('time_limit_s', 64)
    def entry2(ex_):
        env = Env(); ex_.runner_env = env
        ex_.assume(z3.ULE(il, maxit))
        def hook(ex__, eg):
            env.fresh('hookmut', 'bool')
            ok_ = env.fresh('hook', 'bool')
            if ex__.decide(ok_): return ok(Unit())
            return err(PyStr('hook failed'))
        egf = S_._fields['EGraph']; egv = {'eg': Struct({j: Opaque('egraph.' + n_) for j, n_ in enumerate(egf)}, 'EGraph')}; egv['eg'].f[egf.index('unionfind')] = VecVal([]); egv['eg'].f[egf.index('classes')] = HM()
        rep = ex_.call(eqsat, [Ref(egv, 'eg'), VecVal([]), il, tl, PyFn(hook)])
        return rep, env.log
    n_p = 0; bad = []
    try:
        for p in ex.explore(entry2, max_paths=20000):
            n_p += 1
            if p['kind'] == 'panic': bad.append(('panic: ' + p['result']['msg'][:80], p['pc'])); continue
            rep, log = p['result']; ex.pc = p['pc']; RF = S_._fields['Report']
            iters = rep.f[RF.index('iterations')]; sr = rep.f[RF.index('stop_reason')]; nodes = rep.f[RF.index('egraph_nodes')]
            prog = [v for k, v in log if k == 'progress']; hooks_ = [v for k, v in log if k == 'hook']; el = [v for k, v in log if k == 'elapsed']
            reason = {v: k.split('::')[1] for k, v in E.items() if k.startswith('StopReason::')}[sr.disc]
            claims = [('iterations <= iter_limit', z3.ULE(iters, il)), ('rounds == iterations + 1', z3.BoolVal(len(prog) == conc(iters) + 1)),
                      ('egraph_nodes == the count the e-graph reported', nodes == [v for k, v in log if k == 'nodes'][-1]),
                      ('the node count of the report is read after the last hook call', z3.BoolVal([i for i, (k, v) in enumerate(log) if k == 'nodes'][-1] > [i for i, (k, v) in enumerate(log) if k == 'hook'][-1]))]
            hm = [v for k, v in log if k == 'hookmut']
            if reason == 'Saturated': claims += [('Saturated => the last apply_rewrites returned false', z3.Not(prog[-1])), ('Saturated => the last hook succeeded', hooks_[-1]),
                                                 ('Saturated => no hook changed the e-graph after the last apply_rewrites', z3.Not(hm[-1]))]
            elif reason == 'Other': claims.append(('Other => the last hook failed', z3.Not(hooks_[-1])))
            elif reason == 'IterationLimit': claims.append(('IterationLimit => iterations reached the limit', z3.UGE(iters, il)))
            elif reason == 'TimeLimit': claims.append(('TimeLimit => elapsed seconds reached the limit', z3.UGE(el[-2] if len(el) > 1 else el[-1], tl)))
            for label, c in claims:
                okv, m = ex.valid(c)
                if not okv: bad.append((label + ' [run_eqsat, stop reason %s]' % reason, p['pc'] + [z3.Not(c)]))
    except (Unsupported, Budget) as e:
        inconclusive.append('run_eqsat: %s' % str(e)[:300])
    paths += n_p
    samples.append({'obligation': 'run_eqsat, iter_limit <= %d symbolic, time limit and all environment answers symbolic' % maxit, 'paths': n_p, 'verdict': 'holds' if not bad else 'VIOLATED'})
    seen_lab = set()
    for label, pc in bad:
        if label.split('[')[0] in seen_lab or len(seen_lab) >= 3: continue
        seen_lab.add(label.split('[')[0])
        s = z3.Solver(); s.add(*pc); s.check(); m = s.model()
        key = 'runner:eqsat_%s' % re.sub(r'[^\w]', '_', label.split('[')[0])[:44]
        nat = native_hook_replay('eqsat', label)
        if nat is not None and not nat[0]: inconclusive.append('run_eqsat finding "%s" does not reproduce natively: %s' % (label, nat[1])); continue
        path = common.write_replay('C15', key, {'property': 'C15', 'level': 'runner-loop', 'obligation': label, 'environment': {str(d): str(m[d]) for d in m.decls()}, 'native': nat and nat[1]})
        violations.append((key, path, 'run_eqsat: %s; environment %s%s' % (label, {str(d): str(m[d]) for d in m.decls()}, '; native: ' + nat[1] if nat else '')))
    return {'samples': samples, 'violations': violations, 'inconclusive': inconclusive, 'states': paths, 'transitions': ex.n_branches, 'validated': 0,
            'functions_encoded': sorted(short_fn(f) for f in ex.inlined), 'library_models': sorted(ex.modelled), 'solver_time_s': round(ex.t_solver, 2), 'wall_s': time.time() - t0,
            'summary': 'Runner loop with stubbed environment: %d paths' % paths,
            'bounds': 'runner loop: iter_limit <= %d (symbolic), <= 2 hooks, all counts / limits / clock readings arbitrary 64-bit values; rewriting, node counting and the clock are nondeterministic stubs' % maxit}
