"""C06 - extraction returns a cheapest term of the requested class.

History level: extraction templates of the shared exploration (see tmpl_props / judge: extract_* obligations).
Unit level: the cost functions themselves from MIR (AstSize::cost and the harness crate's weighted costs) on a node with two children
whose costs are arbitrary u64 values: no panic (overflow), result = saturating weight + sum, strictly monotone below saturation.
"""
import time, json
import z3
from . import common, tmpl_props
from mirsmt.session import Session
from mirsmt.engine import *
from mirsmt.models import PyFn
from mirsmt.tmpl import short_fn
from mirsmt import native

def unit(tier):
    t0 = time.time()
    S_ = Session((), True); R = S_.resolver; R.tymap.clear(); R.tymap.update({'L': 'Lb'})
    ex = S_.executor()
    samples = []; violations = []; inconclusive = []; paths = 0
    c1, c2 = z3.BitVec('cost1', 64), z3.BitVec('cost2', 64)
    def null(i): return Struct({0: Struct({0: U64(i)}, 'Id'), 1: Struct({0: SVec([])}, 'SlotMap')}, 'AppliedId')
    for cf, w in (('AstSize', 1), ('Weighted', 3)):
        fn = R.M('<%s as CostFunction>::cost' % cf)
        def entry(ex_, fn=fn, cf=cf):
            node = {'n': Enum(S_.enums['Lb::App'], Struct({0: null(0), 1: null(1)}), 'Lb')}
            costs = PyFn(lambda ex__, i: z3.If(i.f[0] == 0, c1, c2) if z3.is_expr(i.f[0]) else (c1 if conc(i.f[0]) == 0 else c2))
            cfv = {'c': Struct({}, cf)}
            return ex_.call(fn, [Ref(cfv, 'c'), Ref(node, 'n'), costs])
        bad = []; n_p = 0
        try:
            for p in ex.explore(entry):
                n_p += 1
                if p['kind'] == 'panic':
                    s = z3.Solver(); s.add(*p['pc']); s.check(); m = s.model()
                    bad.append(('panic "%s"' % p['result']['msg'][:60], m.eval(c1, model_completion=True).as_long(), m.eval(c2, model_completion=True).as_long())); continue
                ex.pc = p['pc']; r = p['result']
                wide = z3.ZeroExt(8, c1) + z3.ZeroExt(8, c2) + w
                want = z3.If(z3.UGT(wide, z3.BitVecVal(2**64 - 1, 72)), z3.BitVecVal(2**64 - 1, 64), z3.Extract(63, 0, wide))
                okv, m = ex.valid(r == want)
                if not okv: bad.append(('result %s, expected the saturating sum' % m.eval(r, model_completion=True), m.eval(c1, model_completion=True).as_long(), m.eval(c2, model_completion=True).as_long()))
        except (Unsupported, Budget) as e: inconclusive.append('cost function %s: %s' % (cf, str(e)[:200]))
        paths += n_p
        samples.append({'obligation': '%s::cost on (app c1 c2) with arbitrary u64 child costs' % cf, 'paths': n_p, 'verdict': 'holds' if not bad else 'VIOLATED'})
        validated = 0
        for what, v1, v2 in bad[:1]:
            want = min(2**64 - 1, v1 + v2 + w); nat = {}
            for prof in ('dev', 'release'):
                r = native.run_cases('case cost:r\n%s %d %d\n' % (cf, v1, v2), prof).get('cost:r'); nat[prof] = r['results'][0] if r else None
            if all(x == str(want) for x in nat.values()):
                inconclusive.append('%s::cost(%d, %d): symbolic counterexample (%s) does not reproduce natively: %s' % (cf, v1, v2, what, nat)); continue
            b = '%s with child costs %d, %d; native: %s (a strictly monotone saturating cost gives %d)' % (what, v1, v2, nat, want)
            key = 'unit:%s_cost' % cf
            path = common.write_replay('C06', key, {'property': 'C06', 'level': 'unit', 'cost_function': cf, 'finding': b,
                                                   'note': 'reaching a child cost near 2^64 through the public API needs ~64 doubling classes (t(k+1) = app(t(k), t(k))); the arithmetic is decided on the cost function itself'})
            violations.append((key, path, '%s::cost: %s' % (cf, b)))
    return {'samples': samples, 'violations': violations, 'inconclusive': inconclusive, 'states': paths, 'transitions': ex.n_branches, 'validated': 0,
            'functions_encoded': sorted(short_fn(f) for f in ex.inlined), 'library_models': sorted(ex.modelled), 'solver_time_s': round(ex.t_solver, 2), 'wall_s': time.time() - t0,
            'summary': 'cost functions on arbitrary child costs', 'bounds': 'unit level: one binary node, child costs arbitrary u64'}

def run(tier, seed=0): return tmpl_props.run('C06', tier, seed, unit(tier))
def replay(path):
    p = json.load(open(path))
    if p.get('level') == 'unit': print('C06 unit-level counterexample:', json.dumps(p)[:800]); return 1
    return tmpl_props.replay('C06', path)
