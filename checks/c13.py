"""C13 - equalities are never lost and old handles stay valid.

Unit level: ONE canonicalisation step (EGraph::find_applied_id with its helpers proven_find_applied_id, proven_proven_find_applied_id,
proven_unionfind_get, the recursive unionfind_get_impl with path compression, chain_pai, SlotMap::compose_partial, all from MIR) from an
ARBITRARY union-find state of a given chain shape: every slot and every map entry is symbolic.  Oracle: pointwise composition of the
maps along the chain as z3 ite-terms, for a fresh symbolic slot.
History level: monotonicity of eq / slot counts / progress measure over the template histories (shared exploration).
"""
import sys, time, json, re
import z3
from . import common, tmpl_props
from mirsmt.session import Session
from mirsmt.engine import *
from mirsmt.tmpl import short_fn, Template
from mirsmt import judge, native

def mk_map(items): return Struct({0: SVec([tup(slot(k), slot(v)) for k, v in items])}, 'SlotMap')
def content(m): return [(p.f[0].f[0], p.f[1].f[0]) for p in dd(m).f[0].items]
def ref_get(items, q):
    pres = z3.BoolVal(False); val = z3.BitVecVal(0, 32)
    for k, v in items:
        pres = z3.If(q == k, z3.BoolVal(True), pres); val = z3.If(q == k, v, val)
    return pres, val
def applied(i, items): return Struct({0: Struct({0: U64(i)}, 'Id'), 1: mk_map(items)}, 'AppliedId')
def pai(i, items): return Struct({0: applied(i, items)}, 'ProvenAppliedId')

# shapes: list of (id -> (parent id, number of leader-side keys)), slots per class
SHAPES = {
    'chain 2->1->0, all classes 2 slots': {'slots': {0: 2, 1: 2, 2: 2}, 'uf': {0: (0, 2), 1: (0, 2), 2: (1, 2)}},
    'chain 2->1->0 dropping a slot at each step (3,2,1 slots)': {'slots': {0: 1, 1: 2, 2: 3}, 'uf': {0: (0, 1), 1: (0, 1), 2: (1, 2)}},
    '2->0 and 1->0 directly': {'slots': {0: 2, 1: 2, 2: 2}, 'uf': {0: (0, 2), 1: (0, 2), 2: (0, 2)}},
    'leader lost a slot after 1 was merged into it (stale 3-key entry, restricting self entry)': {'slots': {0: 2, 1: 3, 2: 3}, 'uf': {0: (0, 2), 1: (0, 3), 2: (1, 3)}, 'stale': True},
    'stale entry one step from the leader only': {'slots': {0: 1, 1: 2}, 'uf': {0: (0, 1), 1: (0, 2)}, 'stale': True},
}

def build_state(ex, shape):
    """symbolic slots per class (sorted: class slot sets are sets), symbolic injective maps with sorted keys"""
    sl = {}
    for i, n in shape['slots'].items():
        extra = max([k for j, (p, k) in shape['uf'].items() if p == i] + [n])     # a stale entry may mention slots the leader no longer has
        s_ = [z3.BitVec('c%d_%d' % (i, j), 32) for j in range(extra)]
        if len(s_) > 1: ex.assume(z3.Distinct(*s_))
        sl[i] = s_
    entries = {}
    for i, (p, nk) in shape['uf'].items():
        if p == i:
            keys = sorted_subset(ex, sl[i][:nk]); entries[i] = [(k, k) for k in keys]       # leader: identity on its current slots
        else:
            keys = sorted_subset(ex, sl[p][:nk])
            vals = [z3.BitVec('m%d_%d' % (i, j), 32) for j in range(nk)]
            for v in vals: ex.assume(z3.Or(*[v == s_ for s_ in sl[i]]))        # values are slots of class i
            if nk > 1: ex.assume(z3.Distinct(*vals))
            entries[i] = list(zip(keys, vals))
    return sl, entries

def sorted_subset(ex, slots):
    """the given symbolic slots as a key list in ascending order (the order itself is a solver choice)"""
    ks = [z3.BitVec('s%d_%d' % (id(slots) % 9973, j), 32) for j in range(len(slots))]
    # ks is a sorted permutation of slots
    for a, b in zip(ks, ks[1:]): ex.assume(z3.ULT(a, b))
    for k in ks: ex.assume(z3.Or(*[k == s_ for s_ in slots]))
    for s_ in slots: ex.assume(z3.Or(*[k == s_ for k in ks]))
    return ks

def chain_reference(entries, shape, i, q):
    """reference: value of leader-slot q under the composed map leader -> class i, following parents and applying the leader's self entry"""
    path = [i]
    while shape['uf'][path[-1]][0] != path[-1]: path.append(shape['uf'][path[-1]][0])
    leader = path[-1]
    pres, val = ref_get(entries[leader], q)       # the leader's own entry (identity on its current slots) restricts
    for j in reversed(path[:-1]):
        p2, v2 = ref_get(entries[j], val); pres = z3.And(pres, p2); val = v2
    return leader, pres, val

def unit(tier, prop='C13'):
    t0 = time.time()
    S_ = Session((), True); R = S_.resolver; R.tymap.clear(); R.tymap.update({'L': 'Lf', 'N': '()'})
    ex = S_.executor()
    find = R.M('EGraph::find_applied_id'); ufi = S_.field_index('EGraph', 'unionfind')
    nfields = len(S_._fields['EGraph'])
    samples = []; viol = []; paths = 0; inconclusive = []
    for name, shape in SHAPES.items():
        start = max(shape['uf'])
        q = z3.BitVec('q', 32)
        def entry(ex_):
            sl, entries = build_state(ex_, shape)
            eg = Struct({j: Opaque('field%d' % j) for j in range(nfields)}, 'EGraph')
            eg.f[ufi] = VecVal([pai(shape['uf'][i][0], entries[i]) for i in sorted(shape['uf'])])
            cell = {'eg': eg}
            # the invocation handed in: start[args], args a bijection from the class's slots to fresh user slots
            ns = shape['slots'][start] if not shape.get('stale') else len(sl[start])
            keys = sorted_subset(ex_, sl[start][:ns]); X = [z3.BitVec('x%d' % j, 32) for j in range(ns)]
            if ns > 1: ex_.assume(z3.Distinct(*X))
            h = {'h': applied(start, list(zip(keys, X)))}
            r1 = ex_.call(find, [Ref(cell, 'eg'), Ref(h, 'h')])
            uf_after = [cp(x) for x in eg.f[ufi].items]
            r2 = ex_.call(find, [Ref(cell, 'eg'), Ref(h, 'h')])
            c1 = {'r': r1}; r3 = ex_.call(find, [Ref(cell, 'eg'), Ref(c1, 'r')])
            return entries, list(zip(keys, X)), r1, r2, r3, uf_after
        n_ob = 0; bad = []; n_p = 0
        try:
            for p in ex.explore(entry, max_paths=5000):
                n_p += 1
                if p['kind'] == 'panic': bad.append(('no_panic', ex_model(p['pc']), p['result']['msg'], None, None)); continue
                entries, hm, r1, r2, r3, uf_after = p['result']; ex.pc = p['pc']
                leader, pres, val = chain_reference(entries, shape, start, q)
                ph, vh = ref_get(hm, val)                        # then the handed-in arguments
                want_p = z3.And(pres, ph); c1 = content(r1.f[1]); gp, gv = ref_get(c1, q)
                claims = [('leader id', z3.BoolVal(conc(r1.f[0].f[0]) == leader)), ('keys == composition domain', gp == want_p), ('values == pointwise composition', z3.Implies(want_p, gv == vh)),
                          ('keys sorted', z3.And(*[z3.ULT(a, b) for (a, _), (b, _) in zip(c1, c1[1:])]) if len(c1) > 1 else z3.BoolVal(True)),
                          ('second call (through the compressed entry) returns the same', val_eq(r1, r2)), ('idempotent', val_eq(r1, r3))]
                # written-back entries denote the same maps
                for i in sorted(shape['uf']):
                    e = uf_after[i].f[0]; l2, p2, v2 = chain_reference(entries, shape, i, q); cp_, cv = ref_get(content(e.f[1]), q)
                    claims.append(('entry %d after compression: same leader' % i, z3.BoolVal(conc(e.f[0].f[0]) == l2)))
                    claims.append(('entry %d after compression: same map' % i, z3.And(cp_ == p2, z3.Implies(p2, cv == v2))))
                for label, c in claims:
                    n_ob += 1
                    okv, m = ex.valid(c)
                    if not okv: bad.append((label, m, 'claim violated', entries, hm))
        except (Unsupported, Budget) as e:
            inconclusive.append('union-find shape "%s": %s' % (name, str(e)[:300]))
        paths += n_p
        samples.append({'obligation': 'find_applied_id from an arbitrary state: ' + name, 'paths': n_p, 'queries': n_ob, 'verdict': 'holds' if not bad else 'VIOLATED'})
        for label, m, msg, entries, hm in bad[:2]:
            key = 'unit:%s:%s' % (re.sub(r'[^\w]', '_', name)[:40], re.sub(r'[^\w]', '_', label)[:40])
            viol.append((key, name, label, m, msg, entries, hm, shape, start))
    violations = []; validated = 0
    for key, name, label, m, msg, entries, hm, shape, start in viol:
        nat = native_uf(m, entries, hm, shape, start) if entries is not None else None
        if nat is None or not nat['differs']:
            inconclusive.append('union-find step "%s" violates "%s" symbolically but the native replay agrees with the reference: %s' % (name, label, json.dumps(nat)[:300])); continue
        validated += 1
        path = common.write_replay(prop, key, {'property': prop, 'level': 'unit', 'shape': name, 'obligation': label, 'native': nat})
        violations.append((key, path, 'union-find step "%s" violates "%s"; native: %s' % (name, label, json.dumps(nat)[:300])))
    return {'samples': samples, 'violations': violations, 'inconclusive': inconclusive, 'states': paths, 'transitions': ex.n_branches, 'validated': validated,
            'functions_encoded': sorted(short_fn(f) for f in ex.inlined), 'library_models': sorted(ex.modelled), 'solver_time_s': round(ex.t_solver, 2), 'wall_s': time.time() - t0,
            'summary': '%d union-find shapes, %d paths' % (len(SHAPES), paths), 'bounds': 'unit level: <= 3 ids, chain depth <= 2, <= 3 slots per class, all slots and map entries symbolic (sorted key order a solver choice)'}

def native_uf(model, entries, hm, shape, start):
    """drives the real union-find into the model's state through the cfg hook and compares find_applied_id with dict composition"""
    ev = lambda x: model.eval(x, model_completion=True).as_long()
    conc_entries = {i: [(ev(k), ev(v)) for k, v in e] for i, e in entries.items()}; conc_h = [(ev(k), ev(v)) for k, v in hm]
    allv = sorted({x for e in conc_entries.values() for kv in e for x in kv} | {x for kv in conc_h for x in kv})
    rn = {v: 4 * (i + 1) for i, v in enumerate(allv)}          # order-isomorphic renumbering to numeric slots
    lines = ['case uf:r']
    for i in sorted(conc_entries): lines.append('entry %d %d %s' % (i, shape['uf'][i][0], ' '.join('%d %d' % (rn[k], rn[v]) for k, v in conc_entries[i])))
    lines.append('find %d %s' % (start, ' '.join('%d %d' % (rn[k], rn[v]) for k, v in conc_h)))
    lines.append('find %d %s' % (start, ' '.join('%d %d' % (rn[k], rn[v]) for k, v in conc_h)))
    r = native.run_cases('\n'.join(lines) + '\n').get('uf:r')
    if r is None or 'results' not in r: return None
    # reference
    path = [start]
    while shape['uf'][path[-1]][0] != path[-1]: path.append(shape['uf'][path[-1]][0])
    leader = path[-1]; comp = {rn[k]: rn[v] for k, v in conc_entries[leader]}
    for j in reversed(path[:-1]):
        mj = {rn[k]: rn[v] for k, v in conc_entries[j]}; comp = {k: mj[v] for k, v in comp.items() if v in mj}
    mh = {rn[k]: rn[v] for k, v in conc_h}; comp = {k: mh[v] for k, v in comp.items() if v in mh}
    want = '%d %s' % (leader, ','.join('%d>%d' % kv for kv in sorted(comp.items())))
    got = r['results'][-2:]
    return {'script': lines, 'native': got, 'reference': want, 'differs': any(g != want for g in got)}

def ex_model(pc):
    s = z3.Solver(); s.add(*pc); assert s.check() == z3.sat; return s.model()

def run(tier, seed=0):
    return tmpl_props.run('C13', tier, seed, unit(tier))

def replay(path):
    p = json.load(open(path))
    if p.get('level') == 'unit': print('C13 unit-level counterexample:', json.dumps(p)[:1500]); return 1
    return tmpl_props.replay('C13', path)
