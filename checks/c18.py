"""C18 - parsing never panics and returns well-formed values (the print/parse round trip is checked on the parsed values).

(i)  token level: Pattern::parse's recursive descent (parse_pattern, parse_pattern_nosubst, parse_nested_syntax_elem and the derived
     from_syntax of the harness languages, all from MIR) on EVERY token sequence of length <= N: token kinds symbolic, identifier
     texts symbolic over the operator names plus one foreign name, slots symbolic.
(ii) text level: tokenize / crop_ident / ident_char and then the same parser on EVERY string of <= M characters (symbolic Unicode
     scalar values, so multi-byte characters are in), Slot::named stubbed (C17 decides it); MultiPattern::parse likewise.
Obligations: no panic path is feasible; an Ok value has exactly as many sub-patterns per node as the node has children.
Every violated obligation is replayed natively (text built from the model) before it is reported.
"""
import sys, time, json, re, os
import z3
from . import common
from mirsmt.session import Session
from mirsmt.engine import *
from mirsmt.models import M, It
from mirsmt import native, strings
from mirsmt.strings import SStr, SChoice, SChar, valid_char
from mirsmt.tmpl import short_fn, PatStr

TOKENS = ['Slot', 'Ident', 'PVar', 'ColonEquals', 'LParen', 'RParen', 'LBracket', 'RBracket']
IDENTS = {'Lf': ['f', 'g', 'h', 'zz'], 'Lb': ['var', 'app', 'lam', 'k', 'u', 'j', 'zz'], 'Lp': ['pu', 'pv', 'pc', '7', 'zz']}

@M.add(r'^(slot::)?Slot::named$', front=True, first=True)
def stub_named(ex, c, args, m):
    if not getattr(ex, 'stub_named', False): return NotImplemented
    n = getattr(ex, '_named_n', 0); ex._named_n = n + 1
    if n == 0: ex._named_calls = []
    ex._named_calls.append(dd(args[0]))
    return slot(z3.BitVec('named_%d' % n, 32))

def mk_tokens(ex, n, lang):
    toks = []; meta = []
    for i in range(n):
        d = z3.BitVec('tk%d' % i, 64); ex.assume(z3.ULT(d, 8))
        sel = z3.BitVec('id%d' % i, 8); ch = SChoice(sel, IDENTS[lang]); ex.assume(ch.constraint())
        sv = z3.BitVec('ts%d' % i, 32)
        pay = MultiPayload({'Slot': Struct({0: slot(sv)}), 'Ident': Struct({0: ch}), 'PVar': Struct({0: PyStr('v%d' % i)}),
                            'ColonEquals': Struct({}), 'LParen': Struct({}), 'RParen': Struct({}), 'LBracket': Struct({}), 'RBracket': Struct({})})
        toks.append(Enum(d, pay, 'Token')); meta.append((d, ch, sv))
    return toks, meta

def token_text(model, meta):
    out = []
    for i, (d, ch, sv) in enumerate(meta):
        k = model.eval(d, model_completion=True).as_long()
        kind = TOKENS[k]
        if kind == 'Slot': out.append('$s%d' % (model.eval(sv, model_completion=True).as_long() % 3))
        elif kind == 'Ident': out.append(ch.value(model))
        elif kind == 'PVar': out.append('?v%d' % i)
        else: out.append({'ColonEquals': ':=', 'LParen': '(', 'RParen': ')', 'LBracket': '[', 'RBracket': ']'}[kind])
    return ' '.join(out)

def pattern_wf(ex, R, p):
    """every ENode has exactly as many sub-patterns as the node has children"""
    p = dd(p)
    d = p.disc
    if d == ex.session.enums['Pattern::ENode']:
        node, kids = p.payload.f[0], p.payload.f[1]
        cell = {'n': node}
        occ = ex.call_callee('<L as lang::Language>::applied_id_occurrences', [Ref(cell, 'n')])
        if len(occ.items) != len(kids.items): return False
        return all(pattern_wf(ex, R, k) for k in kids.items)
    if d == ex.session.enums['Pattern::PVar']: return True
    return all(pattern_wf(ex, R, dd(p.payload.f[i])) for i in range(3))

def multi_wf(ex, R, mp):
    """every equation ?v == node carries exactly as many child variables as the node has children"""
    for t in dd(mp).f[0].items:
        cell = {'n': t.f[1]}
        occ = ex.call_callee('<L as lang::Language>::applied_id_occurrences', [Ref(cell, 'n')])
        if len(occ.items) != len(t.f[2].items): return False
    return True

def run_tokens(S_, lang, n, stats, findings):
    R = S_.resolver; R.tymap.clear(); R.tymap.update({'L': lang})
    ex = S_.executor()
    pp = R.M('parse_pattern')
    def entry(ex_):
        toks, meta = mk_tokens(ex_, n, lang)
        r = ex_.call(pp, [SliceRef(toks, 0, n)])
        wf = None; re_panic = None
        if r.disc == 0:      # Ok((pattern, rest))
            wf = pattern_wf(ex_, R, r.payload.f[0].f[0])
            if len(r.payload.f[0].f[1]) == 0 and wf:
                # RecExpr::parse(text) from MIR with its inner Pattern::parse(text) answered by this very parse result (PatStr): whatever
                # the source does with a parsed pattern to obtain a term must not panic
                d0 = ex_.depth()
                try: ex_.call(R.M('RecExpr::parse'), [PatStr(r.payload.f[0].f[0])])
                except Panic as pn:
                    ex_.unwind_to(d0); re_panic = (pn.msg, pn.where)
        return (r.disc, wf, meta, re_panic)
    # parse_pattern is the whole of Pattern::parse after tokenisation (the RemainingRest test is a length comparison)
    for p in ex.explore(entry):
        stats['paths'] += 1
        if p['kind'] == 'panic':
            m = ex_model(p['pc']);
            meta = [(z3.BitVec('tk%d' % i, 64), SChoice(z3.BitVec('id%d' % i, 8), IDENTS[lang]), z3.BitVec('ts%d' % i, 32)) for i in range(n)]
            findings.append({'level': 'tokens', 'lang': lang, 'n': n, 'kind': 'panic', 'msg': p['result']['msg'], 'where': short_fn(p['result']['where'] or ''), 'text': token_text(m, meta)})
        else:
            disc, wf, meta, re_panic = p['result']
            if re_panic:
                findings.append({'level': 'tokens:recexpr', 'lang': lang, 'n': n, 'kind': 'panic', 'msg': 'RecExpr::parse: ' + str(re_panic[0]), 'where': short_fn(re_panic[1] or 'pattern_to_re'), 'text': token_text(ex_model(p['pc']), meta)})
            if disc == 0 and wf is not False and stats.get('rt') is not None:
                stats['rt'].append((lang, token_text(ex_model(p['pc']), meta)))
            if disc == 0 and wf is False:
                m = ex_model(p['pc'])
                findings.append({'level': 'tokens', 'lang': lang, 'n': n, 'kind': 'illformed', 'msg': 'Ok value with a node whose number of sub-patterns differs from its number of children', 'where': 'parse_pattern_nosubst', 'text': token_text(m, meta)})
    stats['fenc'] |= set(ex.inlined); stats['lmod'] |= ex.modelled; stats['solver_s'] += ex.t_solver; stats['branches'] += ex.n_branches

SEEDS = {'Lb': ['( lam $s0 ( app ( var $s0 ) ?a ) )', '?a [ ?b [ ?c := ?d ] := ?e ]', '?a [ ?b := ?c ] [ ?d := ?e ]', '( app ?a [ ?b := ?c ] ( var $s1 ) )', '( app ( lam $s0 ?a ) ( u ?b ) )'],
         'Lf': ['( f $s0 $s1 ) [ ?a := ( g $s1 $s0 ) ]'],
         'Lp': ['( pu ( pu 7 ) )', '( pu zz ) [ ( pv $s0 ) := 7 ]', '( pc 7 )']}
NAMED_PAYLOAD_SEEDS = {'( pc 7 )'}      # a named operator with a payload field: known finding (the payload is read as a leaf term)
def seed_kinds(text, lang):
    out = []
    for t in text.split():
        if t.startswith('$'): out.append(('Slot', None))
        elif t.startswith('?'): out.append(('PVar', None))
        elif t in (':=', '(', ')', '[', ']'): out.append(({':=': 'ColonEquals', '(': 'LParen', ')': 'RParen', '[': 'LBracket', ']': 'RBracket'}[t], None))
        else: out.append(('Ident', t))
    return out

def run_seeded(S_, lang, seed, max_dev, stats, findings):
    """every token sequence that differs from a valid seed text in at most max_dev positions (kind / identifier symbolic there)"""
    R = S_.resolver; R.tymap.clear(); R.tymap.update({'L': lang})
    ex = S_.executor(); pp = R.M('parse_pattern')
    kinds = seed_kinds(seed, lang); n = len(kinds)
    def entry(ex_):
        toks, meta = mk_tokens(ex_, n, lang)
        devs = []
        for (d, ch, sv), (k, ident) in zip(meta, kinds):
            same = d == TOKENS.index(k)
            if ident is not None: same = z3.And(same, ch.sel == IDENTS[lang].index(ident))
            devs.append(z3.If(same, z3.BitVecVal(0, 8), z3.BitVecVal(1, 8)))
        ex_.assume(z3.ULE(sum(devs[1:], devs[0]), max_dev))
        r = ex_.call(pp, [SliceRef(toks, 0, n)])
        wf = pattern_wf(ex_, R, r.payload.f[0].f[0]) if r.disc == 0 else None
        rest = len(r.payload.f[0].f[1]) if r.disc == 0 else None
        return (r.disc, wf, meta, rest)
    for p in ex.explore(entry, max_paths=50000):
        stats['paths'] += 1
        meta = [(z3.BitVec('tk%d' % i, 64), SChoice(z3.BitVec('id%d' % i, 8), IDENTS[lang]), z3.BitVec('ts%d' % i, 32)) for i in range(n)]
        if p['kind'] == 'panic':
            findings.append({'level': 'tokens', 'lang': lang, 'n': n, 'kind': 'panic', 'msg': p['result']['msg'], 'where': short_fn(p['result']['where'] or ''), 'text': token_text(ex_model(p['pc']), meta)})
        else:
            disc, wf, _, rest = p['result']
            # the seed text itself is the printed form of a well-formed pattern: the path that contains it must accept it completely
            exact = []
            for (d, ch, sv), (k, ident) in zip(meta, kinds):
                exact.append(d == TOKENS.index(k))
                if ident is not None: exact.append(ch.sel == IDENTS[lang].index(ident))
            sx = z3.Solver(); sx.add(*p['pc']); sx.add(*exact)
            if sx.check() == z3.sat and not (disc == 0 and rest == 0):
                findings.append({'level': 'tokens', 'lang': lang, 'n': n, 'kind': 'valid_text_rejected', 'msg': 'the printed form of a well-formed pattern is rejected', 'where': 'named_payload_operator' if seed in NAMED_PAYLOAD_SEEDS else 'parse_pattern', 'text': seed})
            if disc == 0 and wf is False: findings.append({'level': 'tokens', 'lang': lang, 'n': n, 'kind': 'illformed', 'msg': 'ill-formed Ok value', 'where': 'parse_pattern_nosubst', 'text': token_text(ex_model(p['pc']), meta)})
            elif disc == 0 and rest == 0 and stats.get('rt') is not None: stats['rt'].append((lang, token_text(ex_model(p['pc']), meta)))
    stats['fenc'] |= set(ex.inlined); stats['lmod'] |= ex.modelled; stats['solver_s'] += ex.t_solver; stats['branches'] += ex.n_branches

def ex_model(pc):
    s = z3.Solver(); s.add(*pc); assert s.check() == z3.sat; return s.model()

def cval_(c): return strings.cval(c)
def mk_string(ex, n):
    cs = [z3.BitVec('ch%d' % i, 32) for i in range(n)]
    for c in cs: ex.assume(valid_char(c))
    return SStr(cs), cs

def string_text(model, cs):
    return [model.eval(c, model_completion=True).as_long() for c in cs]

def run_text(S_, lang, n, which, stats, findings):
    R = S_.resolver; R.tymap.clear(); R.tymap.update({'L': lang})
    ex = S_.executor(); ex.stub_named = True
    fn = {'tokenize': R.M('tokenize'), 'pattern': R.M('Pattern::parse'), 'multi': R.M('MultiPattern::parse'), 'recexpr': R.M('RecExpr::parse')}[which]
    def entry(ex_):
        ex_._named_n = 0
        s, cs = mk_string(ex_, n)
        r = ex_.call(fn, [s])
        wf = None
        if which == 'pattern' and r.disc == 0: wf = pattern_wf(ex_, R, r.payload.f[0])
        if which == 'tokenize' and r.disc == 0:
            # every slot token is Slot::named(<the identifier run that follows the '$'>): the k-th slot token is the k-th answer of the stub, and the
            # text handed to the stub is a maximal run of identifier characters directly behind a '$'
            calls = list(getattr(ex_, '_named_calls', [])) if ex_._named_n else []
            k = 0; bad = None
            for t in dd(r.payload.f[0]).items:
                t = dd(t)
                if t.disc != ex_.session.enums['Token::Slot']: continue
                v = dd(dd(t.payload.f[0]).f[0])
                if not (z3.is_expr(v) and z3.is_const(v) and str(v) == 'named_%d' % k): bad = 'slot token %d is not the value Slot::named returned' % k; break
                a = calls[k] if k < len(calls) else None
                if not (isinstance(a, SStr) and a.chars is cs and a.start >= 1): bad = 'Slot::named was not called with the text behind the $'; break
                if not ex_.valid(z3.And(cval_(cs[a.start - 1]) == ord('$'), *[_ident_char(c) for c in a.cs()]))[0]: bad = 'the slot name is not the identifier run behind a $'; break
                if a.end < len(cs) and not ex_.valid(z3.Not(_ident_char(cs[a.end])))[0]: bad = 'the slot name stops before the end of the identifier run'; break
                k += 1
            if bad is None and k != len(calls): bad = 'Slot::named called %d times for %d slot tokens' % (len(calls), k)
            return (r.disc, wf, bad)
        return (r.disc, wf)
    cs = [z3.BitVec('ch%d' % i, 32) for i in range(n)]
    for p in ex.explore(entry, max_paths=200000):
        stats['paths'] += 1
        if p['kind'] == 'panic':
            m = ex_model(p['pc'])
            findings.append({'level': 'text:' + which, 'lang': lang, 'n': n, 'kind': 'panic', 'msg': p['result']['msg'], 'where': short_fn(p['result']['where'] or ''), 'codepoints': string_text(m, cs)})
        elif p['result'][0] == 0 and p['result'][1] is False:
            m = ex_model(p['pc'])
            findings.append({'level': 'text:' + which, 'lang': lang, 'n': n, 'kind': 'illformed', 'msg': 'ill-formed Ok value', 'where': 'parse_pattern_nosubst', 'codepoints': string_text(m, cs)})
        elif len(p['result']) > 2 and p['result'][2]:
            # several models of the path: names that str::parse::<u32> conflates (leading zero, '+') are tried first, the slot they denote is compared natively with Slot::named
            single = z3.And(cs[0] == ord('$'), *[_ident_char(c) for c in cs[1:]])       # the whole text is one slot token: the native replay parses "(var <text>)"
            for extra in ([z3.And(single, z3.Or(cs[1] == ord('0'), cs[1] == ord('+')))] if n >= 3 else []) + [single, []]:
                sx = z3.Solver(); sx.add(*p['pc']); sx.add(*([extra] if not isinstance(extra, list) else extra))
                if sx.check() == z3.sat:
                    findings.append({'level': 'text:slottok', 'lang': lang, 'n': n, 'kind': 'slot_token', 'msg': p['result'][2], 'where': 'tokenize', 'codepoints': string_text(sx.model(), cs)})
    stats['fenc'] |= set(ex.inlined); stats['lmod'] |= ex.modelled; stats['solver_s'] += ex.t_solver; stats['branches'] += ex.n_branches

# ---- payload texts (language Lp: a u32 payload variant before a Symbol payload variant) against a reference recogniser --------------
LP_OPS = ['pu', 'pv', 'pc']
def _ident_char(c):
    return z3.And(z3.Not(strings.is_ws(c)), *[c != ord(x) for x in '()[]'])
def _digit(c): return z3.And(z3.UGE(c, 48), z3.ULE(c, 57))
def ref_payload_text(cs):
    """printed forms of payload values (the property: no whitespace or bracket characters): one maximal identifier run"""
    return z3.And(*[_ident_char(c) for c in cs])
def sigil_prefix(cs):
    """texts the tokenizer reads as a pattern variable, a slot or the := token rather than as an identifier"""
    c = [cs[0] == ord('?'), cs[0] == ord('$')]
    if len(cs) >= 2: c.append(z3.And(cs[0] == ord(':'), cs[1] == ord('=')))
    return z3.Or(*c)
def expected_print(text):
    return str(int(text)) if re.fullmatch(r'\+?[0-9]+', text) and int(text) < 2**32 else text

def run_payload_text(S_, n, stats, findings):
    """RecExpr::parse on EVERY string of n scalar values in the payload language Lp, compared with a reference recogniser: a text that is
    one identifier run (a printed payload) must be accepted, as the number it spells if str::parse::<u32> accepts it (the earlier
    payload variant) and as the symbol with exactly this text otherwise."""
    R = S_.resolver; R.tymap.clear(); R.tymap.update({'L': 'Lp'})
    ex = S_.executor(); ex.stub_named = True
    fn = R.M('RecExpr::parse'); E = S_.enums
    def entry(ex_):
        ex_._named_n = 0
        s, cs = mk_string(ex_, n)
        r = ex_.call(fn, [s])
        if r.disc != 0: return ('err',)
        node = dd(dd(r.payload.f[0]).f[0]); kids = dd(dd(r.payload.f[0]).f[1])
        if node.disc == E['Lp::PNum']: return ('num', dd(node.payload.f[0]), len(kids.items))
        if node.disc == E['Lp::PSym']: return ('sym', dd(dd(node.payload.f[0]).f[0]), len(kids.items))
        return ('other', node.disc)
    cs = [z3.BitVec('ch%d' % i, 32) for i in range(n)]
    ref = ref_payload_text(cs); sig = sigil_prefix(cs)
    # what str::parse::<u32> accepts among texts of <= 9 characters: an optional '+' and one or more digits
    numeral = z3.Or(z3.And(*[_digit(c) for c in cs]), z3.And(cs[0] == ord('+'), *[_digit(c) for c in cs[1:]]) if n >= 2 else z3.BoolVal(False))
    value = z3.BitVecVal(0, 32)
    for c in cs: value = z3.If(_digit(c), value * 10 + (c - 48), value)
    def sat_model(pc, *extra):
        sx = z3.Solver(); sx.add(*pc); sx.add(*extra)
        return sx.model() if sx.check() == z3.sat else None
    for p in ex.explore(entry, max_paths=200000):
        stats['paths'] += 1
        if p['kind'] == 'panic':
            findings.append({'level': 'text:payload', 'lang': 'Lp', 'n': n, 'kind': 'panic', 'msg': p['result']['msg'], 'where': short_fn(p['result']['where'] or ''), 'codepoints': string_text(ex_model(p['pc']), cs)}); continue
        res = p['result']; bad = None
        if res[0] == 'err':
            opname = z3.Or(*[z3.And(*[c == ord(ch) for c, ch in zip(cs, op)]) for op in LP_OPS if len(op) == n]) if any(len(op) == n for op in LP_OPS) else z3.BoolVal(False)
            m = sat_model(p['pc'], ref, z3.Not(sig), z3.Not(opname))
            if m is not None: findings.append({'level': 'text:payload', 'lang': 'Lp', 'n': n, 'kind': 'valid_text_rejected', 'msg': 'the printed form of a payload value is rejected', 'where': 'RecExpr_parse', 'codepoints': string_text(m, cs)})
            m = sat_model(p['pc'], ref, opname)
            if m is not None: findings.append({'level': 'text:payload', 'lang': 'Lp', 'n': n, 'kind': 'valid_text_rejected', 'msg': 'a symbol payload spelled like an operator name prints as that operator and is not parsed back', 'where': 'operator_name', 'codepoints': string_text(m, cs)})
            m = sat_model(p['pc'], ref, sig)
            if m is not None: findings.append({'level': 'text:payload', 'lang': 'Lp', 'n': n, 'kind': 'valid_text_rejected', 'msg': 'a symbol payload whose text begins with ? $ or := prints as a pattern variable / slot / substitution token and is not parsed back', 'where': 'sigil_prefix', 'codepoints': string_text(m, cs)})
            continue
        if res[0] == 'num':
            m = sat_model(p['pc'], ref, z3.Or(z3.Not(numeral), res[1] != value)) if res[2] == 0 else sat_model(p['pc'], ref)
        elif res[0] == 'sym':
            t = res[1]
            same = strings.seq_eq(strings.lit(t), SStr(cs)) if isinstance(t, SStr) else z3.BoolVal(False)
            m = sat_model(p['pc'], ref, z3.Or(numeral, z3.Not(same))) if res[2] == 0 else sat_model(p['pc'], ref)
        else: m = sat_model(p['pc'], ref)
        if m is not None: findings.append({'level': 'text:payload', 'lang': 'Lp', 'n': n, 'kind': 'payload_value', 'msg': 'a printed payload parses to a different value (%s)' % res[0], 'where': 'from_syntax', 'codepoints': string_text(m, cs)})
    stats['fenc'] |= set(ex.inlined); stats['lmod'] |= ex.modelled; stats['solver_s'] += ex.t_solver; stats['branches'] += ex.n_branches

MULTI_SEEDS = ['?a == (u ?b)', '?a == (var $x)', '?a == (app ?b ?c), ?b == (u ?a)', '?a==(lam $x ?b),?b==(var $x)']
MULTI_SPLICED = ['?a == (app ?b (var $x))', '?a == (app (var $x) ?b)', '?a == (u ?b[?c := ?d])', '?a == (lam $x (var $x))']     # not multi-patterns: a child that is not a variable
def run_text_seeded(S_, lang, seed, max_dev, stats, findings):
    """MultiPattern::parse on every string that differs from a valid multi-pattern text in at most max_dev scalar values"""
    R = S_.resolver; R.tymap.clear(); R.tymap.update({'L': lang})
    ex = S_.executor(); ex.stub_named = True
    fn = R.M('MultiPattern::parse'); n = len(seed)
    def entry(ex_):
        ex_._named_n = 0
        s, cs = mk_string(ex_, n)
        devs = [z3.If(c == ord(ch), z3.BitVecVal(0, 8), z3.BitVecVal(1, 8)) for c, ch in zip(cs, seed)]
        ex_.assume(z3.ULE(sum(devs[1:], devs[0]), max_dev))
        r = ex_.call(fn, [s])
        return (r.disc, multi_wf(ex_, R, r.payload.f[0]) if r.disc == 0 else None)
    cs = [z3.BitVec('ch%d' % i, 32) for i in range(n)]
    for p in ex.explore(entry, max_paths=50000):
        stats['paths'] += 1
        m = ex_model(p['pc'])
        if p['kind'] != 'panic' and p['result'][0] == 0 and p['result'][1] is False:
            findings.append({'level': 'text:multi', 'lang': lang, 'n': n, 'kind': 'illformed', 'msg': 'Ok multi-pattern with an equation whose number of child variables differs from the number of children of its node', 'where': 'MultiPattern_parse', 'codepoints': string_text(m, cs)})
            continue
        if p['kind'] == 'panic':
            findings.append({'level': 'text:multi', 'lang': lang, 'n': n, 'kind': 'panic', 'msg': p['result']['msg'], 'where': short_fn(p['result']['where'] or ''), 'codepoints': string_text(m, cs)})
        elif p['result'][0] == 0: stats.setdefault('rt_multi', []).append((lang, tuple(string_text(m, cs))))
    stats['fenc'] |= set(ex.inlined); stats['lmod'] |= ex.modelled; stats['solver_s'] += ex.t_solver; stats['branches'] += ex.n_branches

def classify(f):
    """role key of a finding (input class), used for the known-findings file"""
    w = re.sub(r'[^\w]', '_', f['where'].split('::')[-1])[:40]
    return '%s:%s@%s' % (f['level'].split(':')[0] + ('' if ':' not in f['level'] else '-' + f['level'].split(':')[1]), f['kind'], w)

def native_replay(f, profile='release'):
    cps = f.get('codepoints')
    if cps is None: cps = [ord(c) for c in f['text']]
    if f['level'].endswith('slottok'):
        txt = 'case parse:r %s slottok\ntext %s\n' % (f['lang'], ' '.join(str(c) for c in cps))
        return native.run_cases(txt, profile).get('parse:r')
    kind = 'multirt' if f['level'].endswith('multirt') else 'multi' if f['level'].endswith('multi') else ('recexpr' if f['level'].endswith('recexpr') or f['level'].endswith('payload') else 'pattern')
    txt = 'case parse:r %s %s\ntext %s\n' % (f['lang'], kind, ' '.join(str(c) for c in cps))
    r = native.run_cases(txt, profile).get('parse:r')
    return r

def confirmed(f, r):
    if r is None: return False
    res = r['result']
    if f['kind'] == 'roundtrip': return not (res.startswith('ok same=true') or res.startswith('err'))      # found natively; the replay repeats it
    if f['kind'] == 'panic': return res.startswith('panic')
    if f['kind'] == 'valid_text_rejected': return res.startswith('err') or res.startswith('panic')
    if f['kind'] == 'slot_token': return 'differs' in res or res.startswith('panic')
    if f['kind'] == 'payload_value': return not res == 'ok wf=true ' + expected_print(r['text'])
    if f['level'].endswith('multi'): return res.startswith('ok wf=false') or res.startswith('panic')      # printing an ill-formed multi-pattern indexes past its child list
    return res.startswith('ok wf=false')

def run(tier, seed=0):
    t0 = time.time()
    stats = {'paths': 0, 'fenc': set(), 'lmod': set(), 'solver_s': 0.0, 'branches': 0, 'rt': []}
    findings = []; inconclusive = []; samples = []
    S_ = Session((), True)
    NTOK = 6 if tier == 'quick' else 7
    NTXT = 3 if tier == 'quick' else 4
    plan = []
    for lang in ('Lb', 'Lf'):
        for n in range(0, NTOK + 1):
            if lang == 'Lf' and n > 5: continue
            plan.append(('tokens', lang, n))
    for lang in ('Lb', 'Lf', 'Lp'):
        for sd in SEEDS[lang]: plan.append(('seeded', lang, sd))
    for n in range(1, 5): plan.append(('tokens', 'Lp', n))
    for n in range(0, NTXT + 1): plan.append(('text:tokenize', 'Lb', n))
    for n in range(0, NTXT + 1): plan.append(('text:pattern', 'Lb', n))
    for n in range(0, NTXT + 1): plan.append(('text:multi', 'Lb', n))
    for n in range(0, NTXT + 1): plan.append(('text:recexpr', 'Lb', n))
    for n in range(1, NTXT + 1): plan.append(('text:payload', 'Lp', n))
    for sd in (MULTI_SEEDS[:2] if tier == 'quick' else MULTI_SEEDS): plan.append(('seeded-multi', 'Lb', sd))
    for sd in MULTI_SPLICED: plan.append(('spliced-multi', 'Lb', sd))
    for kind, lang, n in plan:
        before = stats['paths']; nf = len(findings); t1 = time.time()
        try:
            if kind == 'tokens': run_tokens(S_, lang, n, stats, findings)
            elif kind == 'seeded': run_seeded(S_, lang, n, 1 if tier == 'quick' else 2, stats, findings)
            elif kind == 'seeded-multi': run_text_seeded(S_, lang, n, 1, stats, findings)
            elif kind == 'spliced-multi': run_text_seeded(S_, lang, n, 0 if tier == 'quick' else 1, stats, findings)
            elif kind == 'text:payload': run_payload_text(S_, n, stats, findings)
            else: run_text(S_, lang, n, kind.split(':')[1], stats, findings)
            samples.append({'obligation': ('%s %s length %d' % (kind, lang, n)) if kind not in ('seeded', 'seeded-multi', 'spliced-multi') else ('the text "%s" that is not a multi-pattern (a child is not a variable)%s (%s)' % (n, '' if tier == 'quick' else ' and every string within 1 deviating scalar value', lang)) if kind == 'spliced-multi' else ('strings within 1 deviating scalar value of the valid multi-pattern text "%s" (%s)' % (n, lang)) if kind == 'seeded-multi' else 'token sequences within %d deviation(s) of the valid text "%s" (%s)' % (1 if tier == 'quick' else 2, n, lang), 'paths': stats['paths'] - before, 'findings': len(findings) - nf, 'wall_s': round(time.time() - t1, 2)})
        except (Unsupported, Budget) as e:
            inconclusive.append('%s %s %s: %s' % (kind, lang, n, str(e)[:300]))
    # print/parse round trip on every parsed value: one representative text per Ok path, run natively
    rt_checked = 0
    texts = sorted(set(stats['rt']))
    if texts:
        lines = []
        for i, (lang, tx) in enumerate(texts): lines.append('case parse:rt%d %s roundtrip\ntext %s\n' % (i, lang, ' '.join(str(ord(c)) for c in tx)))
        nat = native.run_cases(''.join(lines))
        for i, (lang, tx) in enumerate(texts):
            r = nat.get('parse:rt%d' % i)
            if r is None: continue
            rt_checked += 1
            if r['result'].startswith('err'): continue        # tokens left over after the pattern: Pattern::parse rejects the text
            if not r['result'].startswith('ok same=true'):
                findings.append({'level': 'tokens', 'lang': lang, 'n': len(tx.split()), 'kind': 'roundtrip', 'msg': 'parse(print(parse(text))) differs: ' + r['result'][:120], 'where': 'Display_for_Pattern', 'text': tx})
    mtexts = sorted(set(stats.get('rt_multi', [])))
    if mtexts:
        lines = ['case parse:mrt%d %s multirt\ntext %s\n' % (i, lang, ' '.join(str(c) for c in cps)) for i, (lang, cps) in enumerate(mtexts)]
        nat = native.run_cases(''.join(lines))
        for i, (lang, cps) in enumerate(mtexts):
            r = nat.get('parse:mrt%d' % i)
            if r is None: continue
            rt_checked += 1
            if r['result'].startswith('err'): continue
            if not r['result'].startswith('ok same=true'):
                findings.append({'level': 'text:multirt', 'lang': lang, 'n': len(cps), 'kind': 'roundtrip', 'msg': 'parse(print(parse(text))) fails or differs: ' + r['result'][:120], 'where': 'Display_for_MultiPattern', 'codepoints': list(cps)})
    known = common.load_known()
    violations = {}; known_hits = {}; validated = 0
    for f in findings:
        key = classify(f)
        km = common.known_match(known, 'C18', key)
        if key in violations or key in known_hits: continue
        r = native_replay(f)
        if not confirmed(f, r):
            inconclusive.append('finding %s on %r does not reproduce natively: %s' % (key, f.get('text') or f.get('codepoints'), r)); continue
        rd = native_replay(f, 'dev'); validated += 1
        if km: known_hits[key] = 'key=%s input=%r %s' % (key, r['text'], km['text']); continue
        path = common.write_replay('C18', key, {'property': 'C18', 'finding': f, 'native_release': r, 'native_dev': rd})
        violations[key] = (key, path, '%s on input %r (%s, length %d): %s; native: %s' % (f['kind'], r['text'], f['level'], f['n'], f['msg'][:80], r['result'][:80]))
    cov = {'states': max(stats['paths'], 1), 'transitions': max(stats['branches'], 1), 'traces_validated_against_impl': validated, 'samples': samples,
           'evaluations': stats['paths'], 'distinct_nontrivial': len(samples), 'rule': 'evaluation = one path (a solver-delimited class of token sequences / strings); distinct = (level, language, length) obligations',
           'functions_encoded': sorted(short_fn(x) for x in stats['fenc']), 'library_models': sorted(stats['lmod']), 'solver_time_s': round(stats['solver_s'], 2),
           'roundtrip_texts_checked_natively': rt_checked, 'findings_total': len(findings), 'finding_classes': sorted({classify(f) for f in findings}),
           'bounds': 'token sequences of length <= %d (all kinds; identifier text any operator name or a foreign name; slots symbolic); strings of <= %d Unicode scalar values (all code points, multi-byte included); languages Lb/Lf of the harness crate; Slot::named stubbed at text level' % (NTOK, NTXT),
           'exhaustive': False}
    common.write_evidence('C18', tier, 'model_checking', cov, ['Slot::named returns an arbitrary slot at text level (decided by C17)', 'print/parse round trip of parsed values is replayed natively only'], time.time() - t0, len(violations), seed)
    return common.finish('C18', list(violations.values()), list(known_hits.items()), inconclusive)

def replay(path):
    p = json.load(open(path)); f = p['finding']
    ok = False
    for prof in ('release', 'dev'):
        r = native_replay(f, prof); print('C18 replay (%s): %r -> %s' % (prof, r and r['text'], r and r['result'])); ok = ok or confirmed(f, r)
    return 1 if ok else 0
